"""spec/Receivers.tla replayed (C07 / C08): single and union receivers, `.` and `&.`, methods declared by one, both, the
parent or none of the possible receiver classes."""
import collections
import json
import os

from . import common as C

DECL = {"m_a": ["VfA"], "m_b": ["VfB"], "m_ab": ["VfA", "VfB"], "m_p": ["VfP"], "m_none": [], "m_int": ["Integer"], "m_ai": ["VfA", "Integer"]}
LIT = {"VfA": "VfA.new", "VfB": "VfB.new", "NilClass": "nil", "Integer": "1"}


def emit(work, stats):
    cases = []
    r = C.run_tlc(work, "MCReceivers", "Receivers.cfg", workers=1, timeout=600,
                  stream=lambda l: cases.append(json.loads(json.loads(l))))
    if not r.ok:
        raise C.HarnessError("Receivers model failed: %s" % r.violation)
    stats["states"] += r.distinct
    stats["transitions"] += r.generated
    return sorted(cases, key=lambda c: json.dumps(c, sort_keys=True))


def config(work):
    d = work.sub("cfg-receivers")
    for f in os.listdir(C.SHIPPED_CFG):
        os.symlink(os.path.join(C.SHIPPED_CFG, f), os.path.join(d, f))

    def meths(cls):
        return [{"name": m, "arguments": [], "return_type": {"type": ["Int"]}} for m, cs in sorted(DECL.items()) if cls in cs]
    for cls, ext in (("VfP", []), ("VfA", ["VfP"]), ("VfB", [])):
        c = {"frame": "Builtin", "class": cls, "instance_methods": meths(cls),
             "class_methods": [{"name": "new", "arguments": [], "return_type": {"type": [cls]}}]}
        if ext:
            c["extends"] = ext
        json.dump(c, open(os.path.join(d, "zz_vf_%s.json" % cls.lower()), "w"))
    json.dump({"frame": "Builtin", "class": "Integer", "instance_methods": meths("Integer")}, open(os.path.join(d, "zz_vf_integer_extra.json"), "w"))
    return d


def renderings(case):
    rs = sorted(case["recv"])
    if len(rs) == 1:
        exprs = [LIT[rs[0]]]
    else:
        exprs = ["true ? %s : %s" % (LIT[rs[0]], LIT[rs[1]]), "true ? %s : %s" % (LIT[rs[1]], LIT[rs[0]])]
    return [("vfr = %s" % e, "vfr%s%s" % (case["nav"], case["meth"])) for e in exprs]


def shape(case):
    rs = sorted(case["recv"])
    declared = [c for c in rs if c in DECL[case["meth"]] or (c == "VfA" and "VfP" in DECL[case["meth"]])]
    return "%s-receiver%s/%s/declared-by-%d-of-%d" % ("union" if len(rs) > 1 else "single", "-with-nil" if "NilClass" in rs else "",
                                                       "safe-nav" if case["nav"] == "&." else "dot", len(declared), len(rs))


def run(v, work, stats, prop, checked):
    cases = emit(work, stats)
    cfg = config(work)
    lines, owner = [], []
    for ci, c in enumerate(cases):
        for assign, call in renderings(c):
            lines.append(assign)
            lines.append(call)
            owner.append((ci, len(lines)))
    job = {"cfg": cfg, "files": {"t.rb": "\n".join(lines) + "\n"}, "args": ["t.rb"]}
    wr = C.Runner(work, "worker")
    try:
        res = wr.run_many([job])[0]
    finally:
        wr.close()
    if res.hung or res.crashed or res.get("exit") != 0:
        raise C.HarnessError("receiver program failed: %s %s" % (res.get("cls"), res.get("site")))
    by_row = collections.defaultdict(list)
    for kind, f, row, msg in C.parse_lines(res["out"]):
        if kind == "d":
            by_row[row].append(msg)
    for ci, row in owner:
        c = cases[ci]
        if prop == "C07" and c["mf"]:
            checked["receiver_mustfail"] += 1
            if not by_row.get(row):
                key = "receiver-missed-error:" + shape(c)
                if v.seen(key):
                    v.again(key)
                    continue
                alone = {"cfg": cfg, "files": {"t.rb": "\n".join(lines[row - 2:row]) + "\n"}, "args": ["t.rb"]}
                rr = C.confirm_alone(work, alone, runs=1)[0]
                if any(k == "d" and r_ == 2 for k, f, r_, m in C.parse_lines(rr.get("out") or "")):
                    v.count("not_reproduced_alone")
                    continue
                v.fail(key, "no possible receiver class answers `%s` after `%s`, but ti reports nothing" % (lines[row - 1], lines[row - 2]),
                       C.job_files_for_replay(alone))
        if prop == "C08" and c["mp"]:
            checked["receiver_mustpass"] += 1
            if by_row.get(row):
                key = "receiver-false-alarm:" + shape(c)
                if v.seen(key):
                    v.again(key)
                    continue
                alone = {"cfg": cfg, "files": {"t.rb": "\n".join(lines[row - 2:row]) + "\n"}, "args": ["t.rb"]}
                rr = C.confirm_alone(work, alone, runs=1)[0]
                if not any(k == "d" and r_ == 2 for k, f, r_, m in C.parse_lines(rr.get("out") or "")):
                    v.count("not_reproduced_alone")
                    continue
                v.fail(key, "every possible receiver class answers `%s` after `%s`, but ti reports %r" % (lines[row - 1], lines[row - 2], by_row[row][:1]),
                       C.job_files_for_replay(alone))
    return {"receiver_cases": len(cases), "rows": len(owner)}
