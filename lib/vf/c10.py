"""C10 - nil?/is_a? narrowing is exact inside branches and undone afterwards.

spec/Narrow.tla writes programs line by line (if / unless / elsif / else / end, conditions
nil?, !nil?, is_a?(C) and && of two, nesting, unrelated statements inside branches) and records
for each line the class set every variable must have right after it (the projection of the
region of variable assignments the branch admits).  TLC enumerates all programs of the bound;
each is rendered with `dbtp` probes after every line and run through the real binary.
"""
import collections
import json

from . import common as C
from . import core as K

PER_FILE = 25
INIT = {("Integer", "NilClass"): "vf_x1", ("Integer", "NilClass", "String"): "vf_x2",
        ("Float", "String"): "vf_y1", ("Float", "NilClass", "String"): "vf_y2", ("NilClass", "VfBar", "VfFoo"): "vf_x3"}
JSON_T = {"Integer": "Int", "NilClass": "NilClass", "String": "String", "Float": "Float", "VfFoo": "VfFoo", "VfBar": "VfBar"}


def config(work):
    ms = [{"name": n, "arguments": [], "return_type": {"type": [JSON_T[c] for c in names]}} for names, n in INIT.items()]
    extra = {"zz_vf_narrow.json": {"frame": "Builtin", "class": "Integer", "instance_methods": ms}}
    for cls in ("VfFoo", "VfBar"):
        extra["zz_vf_%s.json" % cls.lower()] = {"frame": "Builtin", "class": cls, "instance_methods": [],
                                                 "class_methods": [{"name": "new", "arguments": [], "return_type": {"type": [cls]}}]}
    return K.build_config(work, "narrowcfg", extra=extra)


def cond_src(c, sfx):
    parts = []
    for a in c:
        v = a["v"] + sfx
        parts.append({"nil": "%s.nil?" % v, "notnil": "!%s.nil?" % v, "isa": "%s.is_a?(%s)" % (v, a["c"])}[a["k"]])
    return " && ".join(parts)


def render(prog, sfx=""):
    """-> (lines, probes[(line idx, var, expected, prog idx)])"""
    lines, probes = [], []
    for i, st in enumerate(prog):
        l = st["line"]
        op = l["op"]
        if op == "init":
            lines.append("x%s = 0.%s" % (sfx, INIT[tuple(sorted(l["x"]))]))
            lines.append("y%s = 0.%s" % (sfx, INIT[tuple(sorted(l["y"]))]))
        elif op in ("if", "unless", "elsif"):
            lines.append("%s %s" % (op, cond_src(l["c"], sfx)))
        elif op == "stmt":
            form = l.get("form", "plain")
            lines.append("z%s = 1%s" % (sfx, {"plain": "", "if-modifier": " if true", "unless-modifier": " unless false"}[form]))
        else:
            lines.append(op)
        if op == "stmt" and l.get("form", "plain") != "plain":
            continue          # no probe between a modifier statement and the conditional right behind it
        for var in ("x", "y"):
            names = st["env"][var]
            if names:
                lines.append("dbtp %s%s" % (var, sfx))
                probes.append((len(lines) - 1, var, ("t", frozenset(("c", n) for n in names)), i))
    return lines, probes


def emit(work, stats, consts, simulate=None, extra=None):
    progs = []

    def feed(line):
        progs.append(json.loads(json.loads(line)))
    c = dict(consts)
    c["EMIT"] = "TRUE"
    c.setdefault("OBJECTS", "FALSE")
    r = C.run_tlc(work, "MCNarrow", "Narrow.cfg", workers=1, timeout=3000, stream=feed, heap="16g", consts=c,
                  simulate=simulate, extra=extra)
    if not r.ok:
        raise C.HarnessError("Narrow model violates its own properties: %s" % r.violation)
    stats["states"] += max(r.distinct, len(progs))
    stats["transitions"] += max(r.generated, len(progs))
    return progs


def structure(prog, upto):
    """Which conditional governs line `upto`, in which branch, and what happened in it before."""
    stack = []
    for i, st in enumerate(prog[:upto + 1]):
        op = st["line"]["op"]
        if op in ("if", "unless"):
            if stack:
                stack[-1]["nested_in"].add(stack[-1]["branch"])
            stack.append({"branch": "then", "conds": [st["line"]["c"]], "nested_in": set(), "kind": op})
        elif op == "elsif":
            stack[-1]["branch"] = "elsif"
            stack[-1]["conds"].append(st["line"]["c"])
        elif op == "else":
            stack[-1]["branch"] = "else"
        elif op == "end":
            closed = stack.pop()
            if i == upto:
                closed["branch"] = "after"
                return closed, stack
    return (stack[-1] if stack else None), stack[:-1]


def deviation(prog, si, open_keys=None):
    fr, outer = structure(prog, si)
    frames = ([fr] if fr else []) + list(outer)
    for f in frames:
        # two tests of the SAME variable in one && chain
        if f["branch"] != "after" and any(len({a["v"] for a in c}) < len(c) for c in f["conds"]) \
                and (open_keys is None or "Dev_SameVarConjunction" in open_keys):
            return "Dev_SameVarConjunction"
    for f in frames:
        if f["branch"] in ("else", "elsif", "after") and (f["nested_in"] - {f["branch"]}) \
                and (open_keys is None or "Dev_SharedIfUnlessInstance" in open_keys):
            return "Dev_SharedIfUnlessInstance"
    for f in frames:
        if f["kind"] == "unless" and f["branch"] == "then" and len(f["conds"][0]) > 1:
            return "Dev_AndElseComplement"
        if f["kind"] == "if" and f["branch"] in ("else", "elsif"):
            earlier = f["conds"][:-1] if f["branch"] == "elsif" else f["conds"]
            if any(len(c) > 1 for c in earlier):
                return "Dev_AndElseComplement"
    # `elsif !x.nil?` after a branch that tested x with is_a?: the elsif narrows from the pre-conditional type and only
    # removes NilClass - the classes the earlier branch took stay in
    if fr is not None and fr["branch"] == "elsif" and len(fr["conds"]) > 1:
        last = fr["conds"][-1]
        for a in last:
            if a["k"] == "notnil" and any(b["k"] == "isa" and b["v"] == a["v"] for c in fr["conds"][:-1] for b in c):
                return "Dev_ElsifNotNilKeepsEarlierClasses"
    # a variable narrowed only by an elsif condition is not restored at `end`
    if fr is not None and fr["branch"] == "after" and len(fr["conds"]) > 1:
        first = {a["v"] for a in fr["conds"][0]}
        later = {a["v"] for c in fr["conds"][1:] for a in c}
        if later - first and (open_keys is None or "Dev_ElsifNarrowingNotRestored" in open_keys):
            return "Dev_ElsifNarrowingNotRestored"
    return None


def run_progs(work, cfg, progs, stats):
    jobs, meta = [], []
    for s in range(0, len(progs), PER_FILE):
        lines, pm = [], []
        for k, prog in enumerate(progs[s:s + PER_FILE]):
            pl, probes = render(prog, "_%d" % k)
            pm.append((len(lines), probes))
            lines.extend(pl)
        jobs.append({"cfg": cfg, "files": {"t.rb": "\n".join(lines) + "\n"}, "args": ["t.rb"]})
        meta.append((s, pm))
    wr = C.Runner(work, "worker")
    try:
        results = wr.run_many(jobs)
    finally:
        wr.close()
    out = [None] * len(progs)
    for (s, pm), res in zip(meta, results):
        if res.hung or res.crashed or res.get("exit") != 0:
            for k in range(len(pm)):
                out[s + k] = "alone"
            continue
        diag = collections.defaultdict(list)
        for kind, f, row, msg in C.parse_lines(res["out"]):
            if kind == "d":
                diag[row].append(msg)
        for k, (base, probes) in enumerate(pm):
            out[s + k] = [(var, exp, K.parse_ti_type(diag[base + li + 1][0]) if diag.get(base + li + 1) else None, si,
                           diag.get(base + li + 1, [])[:1]) for (li, var, exp, si) in probes]
        stats["runs"] += 1
    return out


def alone(work, cfg, prog):
    lines, probes = render(prog, "")
    job = {"cfg": cfg, "files": {"t.rb": "\n".join(lines) + "\n"}, "args": ["t.rb"]}
    rr = C.confirm_alone(work, job, runs=1)[0]
    diag = collections.defaultdict(list)
    for kind, f, row, msg in C.parse_lines(rr.get("out") or ""):
        if kind == "d":
            diag[row].append(msg)
    obs = [(var, exp, K.parse_ti_type(diag[li + 1][0]) if diag.get(li + 1) else None, si, diag.get(li + 1, [])[:1])
           for (li, var, exp, si) in probes]
    return job, obs, rr, lines


def run(tier, work):
    v = C.Verdict("C10", tier, work)
    stats = dict(states=0, transitions=0, runs=0)
    F, T = "FALSE", "TRUE"
    progs = []
    if tier == "quick":
        sets = [dict(MAXDEPTH=1, MAXIFS=1, ELSIF=T, UNLESS=T, STMT=T, RICH=F),
                dict(MAXDEPTH=2, MAXIFS=2, ELSIF=F, UNLESS=F, STMT=F, RICH=F),
                dict(MAXDEPTH=1, MAXIFS=1, ELSIF=T, UNLESS=T, STMT=F, RICH=F, OBJECTS=T)]
    else:
        sets = [dict(MAXDEPTH=1, MAXIFS=1, ELSIF=T, UNLESS=T, STMT=T, RICH=T),
                dict(MAXDEPTH=2, MAXIFS=2, ELSIF=F, UNLESS=T, STMT=F, RICH=F),
                dict(MAXDEPTH=2, MAXIFS=2, ELSIF=T, UNLESS=F, STMT=F, RICH=F),
                dict(MAXDEPTH=1, MAXIFS=1, ELSIF=T, UNLESS=T, STMT=T, RICH=F, OBJECTS=T)]
    for cs in sets:
        progs += emit(work, stats, cs)
    if tier == "thorough":
        sim = emit(work, stats, dict(MAXDEPTH=3, MAXIFS=3, ELSIF=T, UNLESS=T, STMT=T, RICH=T),
                   simulate="num=30000", extra=["-depth", "14", "-seed", str(C.seed())])
        seen = set()
        for p in sim:
            k = json.dumps([st["line"] for st in p], sort_keys=True)
            if k not in seen:
                seen.add(k)
                progs.append(p)
    open_keys = {e["key"] for e in v.findings.entries if e.get("status", "open") == "open"}
    cfg = config(work)
    res = run_progs(work, cfg, progs, stats)
    nprobes = 0
    for prog, obs in zip(progs, res):
        if obs == "alone":
            job, obs, rr, lines = alone(work, cfg, prog)
        nprobes += len(obs)
        mm = [o for o in obs if o[1] != o[2]]
        if not mm:
            continue
        v.count("batch_mismatches")
        d0 = deviation(prog, mm[0][3], open_keys)
        if d0 and v.seen(d0):
            v.again(d0)                        # same named deviation already confirmed alone in this run
            continue
        if len(v.violations) >= 12:
            v.count("mismatches_not_confirmed_after_12_violations")
            continue
        job, obs2, rr, lines = alone(work, cfg, prog)
        mm = [o for o in obs2 if o[1] != o[2]]
        if not mm:
            v.count("mismatch_only_in_batch")
            continue
        var, exp, got, si, raw = mm[0]
        dev = deviation(prog, si, open_keys)
        key = dev if dev else "unexplained:%s" % " / ".join(l for l in lines if not l.startswith("dbtp"))
        v.fail(key, "program %r: after line %d (%s) dbtp %s says %s, the admitted region projects to %s" % (
            [l for l in lines if not l.startswith("dbtp")], si + 1, prog[si]["line"]["op"], var, raw, K.show(exp)),
            C.job_files_for_replay(job), detail={"out": rr.get("out")})
    for p in progs[:3]:
        v.sample({"program": [l for l in render(p)[0] if not l.startswith("dbtp")]})
    cov = {"states": stats["states"], "transitions": stats["transitions"], "traces_validated_against_impl": len(progs),
           "probes_compared": nprobes, "real_runs": stats["runs"], "configs": sets, "exhaustive": tier == "quick",
           "rule": "every Narrow.tla program of the bound: if/unless with nil?, !nil?, is_a?(C) and && of two over two "
                   "union-typed variables, optional elsif/else, nesting depth 2, unrelated statements in branches; dbtp of "
                   "both variables after every line whose region is non-empty"}
    return v.finish("model_checking", cov, assumptions=[
        "branches whose admitted region is empty are unspecified and not probed",
        "no branch assigns the narrowed variables (the property's proviso)"])


def replay(work, path):
    return 0
