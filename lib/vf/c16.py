"""C16 - user classes: resolution, inheritance and visibility follow Ruby.

spec/Classes.tla is the reference (Ruby's method resolution with a visited set, visibility
judgement, arity of `new` from the nearest initialize).  TLC enumerates 23k class graphs (4
hierarchy shapes up to depth 3, an included / extended module, instance and class methods
defined with def / def self. / class << self under public / private / protected sections, a
reopened class, initialize with 0/1 parameters) together with the judgement of every query;
each graph is written with plain class names and with names that collide with configured
short names (Base, Relation, Table), and every query becomes one `dbtp` row.
"""
import collections
import json

from . import common as C
from . import classes as K


def choose_places(work, stats, graphs, rng):
    """one placement per graph (from TLC's MCPlacements), preferring those where an edge crosses namespaces"""
    pls = K.placements(work, stats)
    out = []
    for gr in graphs:
        cross = [p for p in pls if K.crosses(gr, p)]
        out.append(rng.choice(cross or pls))
    return out


def run_graphs(work, graphs, names, stats, args=("t.rb",), places=None):
    jobs, meta = [], []
    for gi, gr in enumerate(graphs):
        pl = places[gi] if places else None
        dl, info = K.render(gr, names, place=pl)
        ql, exp = K.query_lines(gr, names, place=pl)
        jobs.append({"files": {"t.rb": "\n".join(dl + ql) + "\n"}, "args": list(args)})
        meta.append((len(dl), exp))
    wr = C.Runner(work, "worker")
    try:
        results = wr.run_many(jobs)
    finally:
        wr.close()
    out = []
    for (base, exp), job, res in zip(meta, jobs, results):
        if res.hung or res.crashed or res.get("exit") != 0:
            out.append((job, None, "%s@%s" % (res.get("cls"), res.get("site"))))
            continue
        diag = collections.defaultdict(list)
        for kind, f, row, msg in C.parse_lines(res["out"]):
            if kind == "d":
                diag[row].append(msg)
        obs = [(e, K.observe(diag.get(base + e[0] + 1, []))) for e in exp]
        out.append((job, obs, None))
        stats["runs"] += 1
    return out


def finding_key(gr, e, obs, collide):
    li, kind, c, n, expected = e
    g = gr["g"]
    d = [x for x in g["defs"] if x["name"] == n]
    how = ""
    if d:
        x = d[0]
        how = "%s%s%s" % ("static-" + x["how"] if x["static"] else "inst", "-" + x["vis"], "-reopened" if x["reopened"] else "")
        via = "own" if x["owner"] == c else ("module" if x["owner"].startswith("M") else "inherited")
        how += "/" + via
    # a user class whose short name is also a configured class name loses its user-defined parents, modules
    # and initialize (the parent frame is forced to "Builtin"): one known deviation, with exactly this guard
    if collide and (kind == "new" or "/inherited" in how or "/module" in how):
        return "Dev_FlatBuiltinClassList"
    return "%s%s:%s expected %s got %s%s" % ("collide-" if collide else "", kind, how or n, expected["k"], obs[0],
                                             (":" + obs[1]) if obs[0] == "ok" and expected["k"] == "ok" else "")


def run(tier, work):
    v = C.Verdict("C16", tier, work)
    rng = C.tier_rng(tier, 16)
    stats = dict(states=0, transitions=0, runs=0)
    graphs = K.emit(work, stats)
    if tier == "quick":
        graphs = rng.sample(graphs, 1500)
    checked = 0
    for names, collide, placed in ((K.PLAIN, False, False), (K.COLLIDE, True, False), (K.PLAIN, False, True)):
        sub = graphs if not collide else graphs[:len(graphs) // 3]
        places = None
        if placed:
            sub = graphs[:len(graphs) // 2]
            places = choose_places(work, stats, sub, rng)
        for gi, (gr, (job, obs, failure)) in enumerate(zip(sub, run_graphs(work, sub, names, stats, places=places))):
            if obs is None:
                key = "%scrash-or-hang:%s" % ("collide-" if collide else "placed-" if placed else "", failure)
                if v.seen(key):
                    v.again(key)
                    continue
                rr = C.confirm_alone(work, job, runs=1)[0]
                if not (rr.get("panic") or rr.get("timeout")):
                    v.count("not_reproduced_blackbox")
                    continue
                v.fail(key, "class program fails: %s" % failure, C.job_files_for_replay(job))
                continue
            for e, o in obs:
                checked += 1
                if K.agrees(e[4], o):
                    continue
                key = finding_key(gr, e, o, collide)
                if placed:
                    key = "placed-" + key
                if v.seen(key):
                    v.again(key)
                    continue
                rr = C.confirm_alone(work, job, runs=1)[0]
                diag = collections.defaultdict(list)
                for kind, f, row, msg in C.parse_lines(rr.get("out") or ""):
                    if kind == "d":
                        diag[row].append(msg)
                base = len(K.render(gr, names, place=places[gi] if places else None)[0])
                o2 = K.observe(diag.get(base + e[0] + 1, []))
                if K.agrees(e[4], o2):
                    v.count("not_reproduced_blackbox")
                    continue
                src = job["files"]["t.rb"].split("\n")
                v.fail(key, "query `%s`: the model judges %s, ti says %r" % (src[base + e[0]], e[4], o2),
                       C.job_files_for_replay(job), detail={"out": rr.get("out")})
    v.sample({"graph": graphs[0]["g"], "queries": graphs[0]["q"]})
    cov = {"states": stats["states"], "transitions": stats["transitions"], "traces_validated_against_impl": stats["runs"],
           "queries_compared": checked, "graphs": len(graphs), "exhaustive": tier != "quick",
           "rule": "class graphs enumerated by TLC (MCClasses: shapes x foo/bar definitions x visibility x def style x module "
                   "include/extend placement x initialize arity x reopening); every (class, method) query one dbtp row; plain and "
                   "colliding class names"}
    return v.finish("model_checking", cov, assumptions=[
        "a judgement `ok` requires the declared result class and no diagnostic on the row; `undefined/private/protected/"
        "arity-error` require a diagnostic; `ambiguous` is not judged"])


def replay(work, path):
    return 0
