"""Concretiser and comparer for spec/Names.tla (C13): one small program per binding position, written with
every spelling of the position's lexical category; outputs must agree once the spelling is replaced."""
import collections
import json
import re

from . import common as C

PH = "NAME"


def emit(work, stats):
    cases = []
    r = C.run_tlc(work, "MCNames", "Names.cfg", workers=1, timeout=600,
                  stream=lambda l: cases.append(json.loads(json.loads(l))))
    if not r.ok:
        raise C.HarnessError("Names model failed: %s" % r.violation)
    stats["states"] += r.distinct
    stats["transitions"] += r.generated
    return cases


def template(position):
    """program lines with the placeholder NAME (for ivar / gvar the sigil is part of the spelling;
    for attr positions the bare name is derived from the method spelling)"""
    T = {
        "assign": ["NAME = 1", "dbtp NAME", "NAME = \"s\"", "dbtp NAME"],
        "opassign": ["NAME = 1", "NAME += 1", "dbtp NAME"],
        "multiassign": ["NAME, other_v = 1, \"s\"", "dbtp NAME", "dbtp other_v"],
        "condassign": ["if true", "  NAME = 1", "else", "  NAME = \"s\"", "end", "dbtp NAME"],
        "blockparam": ["[1, 2].each do |NAME|", "  dbtp NAME", "end"],
        "braceblockparam": ["total = [1.5].map { |NAME| NAME }", "dbtp total"],
        "methodparam": ["def take(NAME)", "  dbtp NAME", "  NAME", "end", "dbtp take(1)"],
        "defaultparam": ["def take(NAME = \"s\")", "  dbtp NAME", "  NAME", "end", "dbtp take", "dbtp take(1)"],
        "keywordparam": ["def take(NAME: 1)", "  dbtp NAME", "  NAME", "end", "dbtp take(NAME: \"s\")"],
        "restparam": ["def take(*NAME)", "  dbtp NAME", "  NAME", "end", "dbtp take(1, 2)"],
        "keywordpair": ["def take(NAME:, vq2:)", "  dbtp NAME", "  dbtp vq2", "  [NAME, vq2]", "end",
                        "dbtp take(NAME: 1, vq2: \"s\")", "dbtp take(vq2: \"t\", NAME: 2.5)"],
        "patternvar": ["case 1", "in NAME", "  dbtp NAME", "end"],
        "patternarray": ["case [1, \"s\"]", "in [NAME, other_v]", "  dbtp NAME", "  dbtp other_v", "end"],
        "patternbind": ["case 1", "in Integer => NAME", "  dbtp NAME", "end"],
        "patternalt": ["def pick(value)", "  case value", "  in Integer | NAME", "    NAME", "  end", "end", "dbtp pick(1)"],
        "rescuevar": ["begin", "  other_v = 1", "rescue => NAME", "  dbtp NAME", "end"],
        "forvar": ["for NAME in [1, 2]", "  dbtp NAME", "end"],
        "interpolation": ["NAME = 1", "text = \"a#{NAME}b\"", "dbtp text", "dbtp NAME"],
        "defcall": ["def NAME(a)", "  a", "end", "dbtp NAME(1)", "dbtp NAME(\"s\")"],
        "defselfcall": ["class Holder", "  def self.NAME(a)", "    a", "  end", "end", "dbtp Holder.NAME(1)"],
        "attraccessor": ["class Holder", "  attr_accessor :NAME", "  def initialize", "    @NAME = 1", "  end", "end",
                         "h = Holder.new", "dbtp h.NAME", "h.NAME = \"s\"", "dbtp h.NAME"],
        "attrreader": ["class Holder", "  attr_reader :NAME", "  def initialize", "    @NAME = 1.5", "  end", "end",
                       "dbtp Holder.new.NAME"],
        "predicate": ["class Holder", "  def NAME?", "    true", "  end", "end", "dbtp Holder.new.NAME?"],
        "classnew": ["class NAME", "  def value", "    1", "  end", "end", "dbtp NAME.new", "dbtp NAME.new.value"],
        "subclass": ["class NAME", "  def value", "    1", "  end", "end", "class Child < NAME", "end", "dbtp Child.new.value"],
        "modulemixin": ["module NAME", "  def value", "    1", "  end", "end", "class User", "  include NAME", "end", "dbtp User.new.value"],
        "nestedclass": ["module Outer", "  class NAME", "    def value", "      \"s\"", "    end", "  end", "end", "dbtp Outer::NAME.new.value"],
        "constant": ["NAME = 1", "dbtp NAME"],
        "ivar": ["class Holder", "  def initialize", "    NAME = 1", "  end", "  def value", "    NAME", "  end", "end", "dbtp Holder.new.value"],
        "ivarattr": ["class Holder", "  def fill", "    NAME = \"s\"", "  end", "  def value", "    dbtp NAME", "    NAME", "  end", "end",
                     "dbtp Holder.new.value"],
        "gvar": ["NAME = 1", "dbtp NAME", "def value", "  NAME", "end", "dbtp value"],
    }
    return T[position]


READS = {"keywordpair", "assign", "opassign", "multiassign", "condassign", "blockparam", "braceblockparam", "methodparam", "defaultparam",
         "keywordparam", "restparam", "patternvar", "patternarray", "patternbind", "patternalt", "rescuevar", "forvar",
         "interpolation"}


def program(case):
    sp = case["spelling"]
    lines = [l.replace(PH, sp) for l in template(case["position"])]
    return "\n".join(lines) + "\n"


def normalise(out, spelling):
    """output with the spelling (and, for sigilled names, its bare form) replaced by the placeholder"""
    res = out
    forms = [spelling]
    if spelling[0] in "@$":
        forms.append(spelling[1:])
    for f in forms:
        res = re.sub(r"(?<![A-Za-z0-9_])%s(?![A-Za-z0-9_])" % re.escape(f), PH, res)
    return res


def constant_spelling_for(case):
    """the `constant` position needs an upper-case constant: class spellings fit; Q_x is fine too"""
    return case["spelling"]


def run(v, work, stats, known_one_char_key):
    cases = [c for c in emit(work, stats) if not c["discard"]]      # `_` is never read back: Ruby gives it no stable meaning
    by_pos = collections.defaultdict(list)
    for c in cases:
        by_pos[c["position"]].append(c)
    jobs, meta = [], []
    for pos, cs in sorted(by_pos.items()):
        for c in sorted(cs, key=lambda c: c["spelling"]):
            for args in (["t.rb"], ["t.rb", "-i"]):
                jobs.append({"files": {"t.rb": program(c)}, "args": args})
                meta.append((pos, c, tuple(args)))
    wr = C.Runner(work, "worker")
    try:
        results = wr.run_many(jobs)
    finally:
        wr.close()
    groups = collections.defaultdict(list)
    for (pos, c, args), job, res in zip(meta, jobs, results):
        groups[(pos, args)].append((c, job, res))
    compared = 0
    for (pos, args), items in sorted(groups.items()):
        outs = []
        for c, job, res in items:
            if res.hung or res.crashed or res.get("exit") != 0:
                outs.append((c, job, "<fails: %s@%s>" % (res.get("cls"), res.get("site"))))
            else:
                outs.append((c, job, normalise(res.get("out") or "", c["spelling"])))
        # the reference spelling: the most frequent output (a single deviating spelling is the odd one out)
        count = collections.Counter(o for _, _, o in outs)
        ref = count.most_common(1)[0][0]
        for c, job, o in outs:
            compared += 1
            if o == ref:
                continue
            sp = c["spelling"]
            kind = "1-char" if len(sp.lstrip("@$")) == 1 else "underscore" if sp.lstrip("@$").startswith("_") else "digit" if re.search(r"\d", sp) else "long"
            key = "spelling:%s/%s/%s" % (c["category"], pos, kind)
            if c["category"] == "class" and kind == "1-char":
                key = known_one_char_key
            if v.seen(key):
                v.again(key)
                continue
            rr = C.confirm_alone(work, job, runs=1)[0]
            o2 = normalise(rr.get("out") or "", sp)
            if o2 == ref:
                v.count("not_reproduced_blackbox")
                continue
            ref_job = [j for cc, j, oo in outs if oo == ref][0]
            a, b = ref.split("\n"), o2.split("\n")
            diff = [x for x in b if x not in a][:3] + ["missing: " + x for x in a if x not in b][:3]
            files = C.job_files_for_replay(job)
            files["base/t.rb"] = ref_job["files"]["t.rb"]
            v.fail(key, "binding position %s (%s): the spelling %r gives another output than the other spellings of its category: %r" % (
                pos, " ".join(args), sp, diff), files)
    return {"binding_positions": len(by_pos), "spellings_compared": compared}
