"""Shared pieces of C25 (rbs2json) and C26 (c2json): TLC case emission, tool builds, ti arity probing."""
import collections
import json
import os
import stat
import subprocess

from . import common as C


def emit(work, stats, part, sortkw, whole):
    cases = []

    def feed(line):
        cases.append(json.loads(json.loads(line)))
    r = C.run_tlc(work, "MCTools", "Tools.cfg", workers=1, timeout=1800, stream=feed,
                  consts={"SORTKW": "TRUE" if sortkw else "FALSE", "WHOLE": "TRUE" if whole else "FALSE", "EMIT": "TRUE",
                          "PART": json.dumps(part), "INVS": ""})
    if not r.ok:
        raise C.HarnessError("Tools model failed: %s" % r.violation)
    stats["states"] += r.distinct
    stats["transitions"] += r.generated
    return cases


def model_holds(work, stats, part, sortkw, whole, invs):
    r = C.run_tlc(work, "MCTools", "Tools.cfg", workers=2, timeout=900,
                  consts={"SORTKW": "TRUE" if sortkw else "FALSE", "WHOLE": "TRUE" if whole else "FALSE", "EMIT": "FALSE",
                          "PART": json.dumps(part), "INVS": invs})
    stats["states"] += r.distinct
    stats["transitions"] += r.generated
    return r.ok


def build_tool(work, pkg, name):
    out = os.path.join(work.sub("toolbin"), name)
    r = subprocess.run(["go", "build", "-o", out, pkg], cwd=C.REPO, env=C.go_env(), capture_output=True, text=True)
    if r.returncode != 0:
        raise C.HarnessError("go build %s failed: %s" % (pkg, r.stderr[-1500:]))
    return out


def config_with(work, name, class_jsons):
    d = work.sub(name)
    for f in os.listdir(C.SHIPPED_CFG):
        os.symlink(os.path.join(C.SHIPPED_CFG, f), os.path.join(d, f))
    for i, c in enumerate(class_jsons):
        json.dump(c, open(os.path.join(d, "zz_tool_%03d.json" % i), "w"))
    return d


TYPE_LIT = {"Int": "1", "Integer": "1", "String": "\"s\"", "Float": "1.5", "Symbol": ":a", "Bool": "true", "Array": "[1]", "Hash": "{a: 1}"}


def arity_rows(recv, meth, kwargs, declared=None):
    """rows calling recv.meth with k = 0..6 positional arguments (+ the given keyword arguments); the j-th
    argument is a literal of the class the j-th declared positional parameter accepts (no type errors)"""
    lits = []
    for a in declared or []:
        if a.get("key") and not a["key"].startswith("*"):
            continue
        t = (a.get("type") or ["Untyped"])[0].lstrip("?*")
        lits.append(TYPE_LIT.get(t, "1"))
    rows = []
    for k in range(7):
        args = [(lits[j] if j < len(lits) else "1") for j in range(k)] + kwargs
        rows.append("%s.%s(%s)" % (recv, meth, ", ".join(args)))
    return rows


def accepted_by_row(out, first_row, nrows):
    """-> list of bool: no arity diagnostic on the row"""
    bad = collections.defaultdict(list)
    for kind, f, row, msg in C.parse_lines(out):
        if kind == "d":
            bad[row].append(msg)
    res = []
    for i in range(nrows):
        msgs = bad.get(first_row + i, [])
        res.append(not msgs)      # arguments are literals of the declared classes: any diagnostic is a rejection
    return res
