"""C05 - same input, same output (run-to-run determinism).

spec/Editor.tla models how the reports are printed: entries come out of a Go map in an arbitrary
order (TLC explores EVERY order) and are either printed directly or sorted with a comparator that
need not be total.  TLC checks that the printed sequence is a function of the set of records: it is
with a total comparator, it is not with the shipped (method, class, frame) key when overloads
exist, and a direct map print is deterministic only as a set (--define).
Binding: corpus and generated programs x every output mode, each run several times in separate
black-box processes (fresh map seeds, different GOMAXPROCS) and in the in-process worker; outputs
must be byte-identical (--define: identical as a multiset of lines).
"""
import collections
import os

from . import common as C
from . import pool as P
from . import classes as K


def modes_for(text):
    n = text.count("\n") + 1
    row = max(1, n // 2)
    target = "Object"
    import re
    m = re.search(r"^\s*def\s+(self\.)?([a-z_][a-z0-9_]*)", text, re.M)
    if m:
        target = m.group(2)
    cls = re.search(r"^\s*class\s+([A-Z][A-Za-z0-9]*)", text, re.M)
    return [[], ["-i"], ["--hover", "--row=%d" % row], ["--suggest", "--row=%d" % row], ["--llm-nav"], ["--llm-nav", "--all"],
            ["--llm-nav", "--target=%s" % target], ["--llm-define"], ["--llm-class"],
            ["--extends", "--class=%s" % (cls.group(1) if cls else "Array")], ["--define", "--row=%d" % row], ["--llm-error"]] + \
        [["--extends", "--class=%s" % c] for c in sorted(set(re.findall(r"^\s*class\s+([A-Z][A-Za-z0-9]*)", text, re.M)))[:4]
         if cls and c != cls.group(1)]


def canon(args, out):
    if "--define" in args:
        return "\n".join(sorted(out.split("\n")))
    return out


def run(tier, work):
    v = C.Verdict("C05", tier, work)
    rng = C.tier_rng(tier, 5)
    stats = dict(states=0, transitions=0)
    # model: which printers are deterministic
    expect = [("FixedKey", '"sorted"', True), ("AsIsKey", '"sorted"', False), ("AsIsKey", '"map"', False), ("AsIsKey", '"set"', True)]
    for key, mode, should in expect:
        r = C.run_tlc(work, "MCEditor", "Editor.cfg", consts={"KEY": key, "MODE": mode}, workers=2, timeout=600)
        stats["states"] += r.distinct
        stats["transitions"] += r.generated
        if r.ok != should:
            raise C.HarnessError("Editor model: comparator %s / mode %s is %sdeterministic, expected otherwise" % (key, mode, "" if r.ok else "not "))
    texts = [(t, x) for t, x in P.corpus(rng, 30 if tier == "quick" else 585)]
    graphs = rng.sample(K.emit(work, stats), 10 if tier == "quick" else 150)
    for gr in graphs:
        dl, _ = K.render(gr, K.PLAIN)
        ql, _ = K.query_lines(gr, K.PLAIN)
        texts.append(("classes#%d" % len(texts), "\n".join(dl + ql) + "\n"))
    # the same class group under two different modules: same class and method names, identical signatures, two frames
    two = graphs[:6 if tier == "quick" else 60]
    for gi, gr in enumerate(two):
        # the same group twice, and two DIFFERENT groups (same class names, other superclasses / modules), under two modules
        for oi, other in enumerate((gr, two[(gi + 1) % len(two)])):
            lines = []
            # module names that sort behind the class names (Outer / Inner) and in front of them (Aa / Ab)
            m1, m2 = ("Outer", "Inner") if (gi + oi) % 2 == 0 else ("Aa", "Ab")
            for mod, g2 in ((m1, gr), (m2, other)):
                dl, _ = K.render(g2, K.PLAIN, wrap=[mod])
                lines += dl
            for mod, g2 in ((m1, gr), (m2, other)):
                ql, _ = K.query_lines(g2, K.PLAIN, prefix=mod + "::")
                lines += ql
            texts.append(("classes-two-frames#%d" % len(texts), "\n".join(lines) + "\n"))
    if len({t for t, _ in texts}) != len(texts):
        raise C.HarnessError("program tags are not unique: outputs of different programs would be compared")
    nbb = 3
    nw = 2 if tier == "quick" else 6
    bjobs, wjobs = [], []
    for tag, text in texts:
        for m in modes_for(text):
            for k in range(nbb):
                bjobs.append({"files": {"t.rb": text}, "args": ["t.rb"] + m, "gomaxprocs": [1, 2, 8][k % 3], "tag": (tag, tuple(m)),
                              "env": {"GOGC": ["100", "20", "400"][k % 3]}})
            for k in range(nw):
                wjobs.append({"files": {"t.rb": text}, "args": ["t.rb"] + m, "tag": (tag, tuple(m))})
    bb = C.Runner(work, "blackbox")
    bres = bb.run_many(bjobs)
    wr = C.Runner(work, "worker")
    try:
        wres = wr.run_many(wjobs)
    finally:
        wr.close()
    by = collections.defaultdict(list)
    jobof = {}
    for j, r in list(zip(bjobs, bres)) + list(zip(wjobs, wres)):
        if r.get("timeout") or r.hung or r.crashed:
            by[j["tag"]].append(None)
            continue
        by[j["tag"]].append(canon(j["args"], r.get("out") or ""))
        jobof[j["tag"]] = j
    compared = 0
    for tag, outs in by.items():
        good = [o for o in outs if o is not None]
        if len(good) < 2:
            v.count("mode_fails_skipped")
            continue
        compared += 1
        if len(set(good)) == 1:
            continue
        mode = " ".join(a.split("=")[0] for a in tag[1]) or "(diagnostics)"
        key = "nondeterministic:%s" % mode
        if v.seen(key):
            v.again(key)
            continue
        j = jobof[tag]
        reruns = C.confirm_alone(work, {"files": j["files"], "args": j["args"]}, runs=6)
        o2 = {canon(j["args"], r.get("out") or "") for r in reruns if not r.get("timeout")}
        if len(o2) < 2:
            v.count("not_reproduced_in_6_sequential_runs")
            continue
        a, b = sorted(o2)[:2]
        la, lb = a.split("\n"), b.split("\n")
        first = next((i for i, (x, y) in enumerate(zip(la, lb)) if x != y), 0)
        v.fail(key, "%s, mode %s: two runs differ from line %d: %r vs %r" % (tag[0], mode, first + 1, la[first:first + 2], lb[first:first + 2]),
               C.job_files_for_replay({"files": j["files"], "args": j["args"]}))
    v.sample({"modes": [" ".join(m) for m in modes_for("x = 1\n")]})
    cov = {"states": stats["states"], "transitions": stats["transitions"], "traces_validated_against_impl": len(bjobs) + len(wjobs),
           "program_mode_pairs_compared": compared, "blackbox_runs_per_pair": nbb, "worker_runs_per_pair": nw,
           "rule": "corpus + TLC-generated class programs x 12 output modes, each pair run %d times black-box (GOMAXPROCS 1/2/8, GOGC "
                   "100/20/400) and %d times in-process; outputs byte-compared (--define as a multiset of lines)" % (nbb, nw)}
    return v.finish("model_checking", cov, assumptions=[
        "nondeterminism stems from Go map iteration order (the model's schedule); 5+ runs per (program, mode) sample it",
        "a difference counts only if it shows again in 6 sequential black-box runs"])


def replay(work, path):
    return 0
