"""C06 - layout changes only shift reported rows.

Two layers:
 1. spec/Rows.tla transcribes the parser's row accounting (getToken / Read / Unget, multi-line string
    literals).  TLC proves on the intended model that ErrorRow is the physical line of every token
    for every token stream of the bound (which is the shift lemma), and every behaviour of the as-is
    model is replayed into the real ti/parser (harness/rowdrive), comparing Row and ErrorRow after
    every Read with the model and with the physical line.
 2. End to end: corpus and TLC-generated programs get each layout edit (blank line, comment-only
    line at every statement boundary, newline inside a string literal, trailing newline added or
    removed); the outputs (diagnostics and -i hints) must be equal after rebasing the rows behind
    the edit.
"""
import collections
import json
import re
import os
import subprocess

from . import common as C
from . import pool as P


def rows_layer(work, v, stats, maxlen, ungets):
    fixed = not any(e["key"] == "Dev_BeforeStringSkip" and e.get("status", "open") == "open" for e in v.findings.entries)
    out = os.path.join(work.sub("hbin"), "rowdrive")
    r = subprocess.run(["go", "build", "-tags", "verif", "-o", out, "./rowdrive"], cwd=os.path.join(C.ROOT, "harness"),
                       env=C.go_env(), capture_output=True, text=True)
    if r.returncode != 0:
        raise C.HarnessError("building rowdrive failed: " + r.stderr[-1500:])
    base = {"MAXLEN": maxlen, "MAXUNGETS": ungets}
    r = C.run_tlc(work, "MCRows", "Rows.cfg", workers=8, timeout=1800, heap="16g",
                  consts=dict(base, FIX="TRUE", EMIT="FALSE", EXTRA="ErrorRowIsPhysical RowIsPhysical"))
    if not r.ok:
        raise C.HarnessError("intended Rows model violates the row property: %s" % r.violation)
    stats["states"] += r.distinct
    stats["transitions"] += r.generated
    r = C.run_tlc(work, "MCRows", "Rows.cfg", workers=4, timeout=900,
                  consts=dict(MAXLEN=3, MAXUNGETS=1, FIX="FALSE", EMIT="FALSE", EXTRA="ErrorRowIsPhysical"))
    if r.ok:
        raise C.HarnessError("self-test: the BeforeString deviation does not violate ErrorRowIsPhysical (vacuous)")
    lines = []
    r = C.run_tlc(work, "MCRows", "Rows.cfg", workers=1, timeout=1800, heap="16g", stream=lambda l: lines.append(json.loads(l)),
                  consts=dict(base, FIX="TRUE" if fixed else "FALSE", EMIT="TRUE", EXTRA=""))
    stats["states"] += r.distinct
    stats["transitions"] += r.generated
    p = subprocess.run([out], input="\n".join(lines) + "\n", capture_output=True, text=True)
    if p.returncode != 0:
        raise C.HarnessError("rowdrive failed: " + p.stderr[-500:])
    summary = None
    for l in p.stdout.strip().split("\n"):
        d = json.loads(l)
        if d.get("summary"):
            summary = d
            continue
        if d.get("drift"):
            v.count("rows_model_drift")
            if len(v.notes) < 5:
                v.notes.append("Rows drift: %s on %r" % (d["drift"], d["text"]))
        if d.get("clause"):
            toks = d["src"]
            eq_strings = any(toks[i]["k"] == "str" and toks[i]["n"] > 0 and toks[i + 1]["k"] == "str" and toks[i]["txt"] == toks[i + 1]["txt"]
                             for i in range(len(toks) - 1))
            key = "Dev_BeforeStringSkip" if (eq_strings and not fixed and not d.get("drift")) else "unpredicted-row:%r" % d["text"]
            v.fail(key, "token stream %r: %s" % (d["text"], d["clause"]), {"input/t.rb": d["text"], "report.json": json.dumps(d, indent=1)})
    if summary is None or summary["behaviours"] != len(lines):
        raise C.HarnessError("rowdrive did not process every behaviour")
    stats["rows_behaviours"] = summary["behaviours"]
    stats["rows_reads"] = summary["reads"]
    return summary


def edits_for(text, rng, tier):
    """-> list of (kind, at_row, by, new_text)"""
    out = []
    lines = text.split("\n")
    bs = P.boundaries(text)
    if tier == "quick" and len(bs) > 8:
        bs = sorted(rng.sample(bs, 8))
    for r in bs:
        for kind, ins in (("blank", ""), ("comment", "# c")):
            nl = lines[:r - 1] + [ins] + lines[r - 1:]
            out.append((kind, r, 1, "\n".join(nl)))
    if text.endswith("\n"):
        out.append(("strip-final-newline", 10 ** 9, 0, text[:-1]))
    else:
        out.append(("add-final-newline", 10 ** 9, 0, text + "\n"))
    lits = P.string_literals(text)
    if lits:
        for (row, a, b) in (rng.sample(lits, min(len(lits), 2 if tier == "quick" else 6))):
            line = lines[row - 1]
            nl = lines[:row - 1] + [line[:b - 1] + "\n" + line[b - 1:]] + lines[row:]
            # the literal now ends one physical line later: rows AFTER the literal's row move by one
            out.append(("widen-string", row + 1, 1, "\n".join(nl)))
    return out


def same_output(kind, at, want, got):
    if want == got:
        return True
    if kind != "widen-string" or len(want) != len(got):
        return False
    # rows equal to the literal's own row (at - 1) may have moved to the next line
    rest = list(got)
    for w in want:
        if w in rest:
            rest.remove(w)
            continue
        alt = (w[0], w[1], at, w[3])
        if w[2] == at - 1 and alt in rest:
            rest.remove(alt)
            continue
        return False
    return not rest


def context_key(text, kind, row):
    lines = text.split("\n")

    def first(i):
        if 0 <= i < len(lines):
            s = lines[i].strip().split(" ")[0]
            import re
            return re.sub(r"[a-z_0-9]+$", "id", s) if not s in ("def", "class", "module", "if", "unless", "case", "when", "in", "end", "else", "elsif", "while", "begin", "rescue", "do", "private", "protected", "public", "") else (s or "<blank>")
        return "<eof>"
    prev = lines[row - 2] if 0 <= row - 2 < len(lines) else ""
    if kind in ("blank", "comment") and prev.strip().startswith("in ") and "^" in prev:
        # `in ^name => x` / `in ^(expr) => x` directly followed by a blank / comment line: the pin is evaluated as a call
        # (`^` as an operator / the pinned method without arguments) once more
        return "Dev_PinnedExpressionPatternBeforeBlankLine"
    return "%s:after[%s]before[%s]" % (kind, first(row - 2), first(row - 1))


def run(tier, work):
    v = C.Verdict("C06", tier, work)
    rng = C.tier_rng(tier, 6)
    stats = dict(states=0, transitions=0)
    summary = rows_layer(work, v, stats, 4 if tier == "quick" else 5, 1 if tier == "quick" else 2)

    cfgs = P.gen_configs(work)
    progs = [(t, x, None) for t, x in P.corpus(rng, 40 if tier == "quick" else 585)]
    progs += P.generated(work, stats, rng, *((12, 8, 8) if tier == "quick" else (60, 40, 40)))
    jobs, meta = [], []
    # unfinished programs (what an editor sends while the user types): a corpus program cut inside a line, right behind an
    # opening parenthesis, a comma or an operator; only the trailing newlines at EOF are varied
    unfinished = []
    for tag, text in P.corpus(rng, 60 if tier == "quick" else 585):
        lines = text.split("\n")
        rows = [i for i, l in enumerate(lines) if re.search(r"[(,=+]\s*\S", P.strip_strings(l) or "")]
        for i in rng.sample(rows, min(len(rows), 2 if tier == "quick" else 5)):
            m = list(re.finditer(r"[(,=+]", lines[i]))
            cut = rng.choice(m).end()
            unfinished.append(("unfinished:" + tag, "\n".join(lines[:i] + [lines[i][:cut] + " 1" if lines[i][cut - 1] in "(," and rng.random() < 0.5
                                                                          else lines[i][:cut]])))
    for tag, text in unfinished:
        base_i = len(jobs)
        jobs.append({"cfg": None, "files": {"t.rb": text}, "args": ["t.rb", "-i"]})
        meta.append(("base", tag, None))
        for k in (1, 3):
            jobs.append({"cfg": None, "files": {"t.rb": text + "\n" * k}, "args": ["t.rb", "-i"]})
            meta.append(("add-final-newline", tag, (base_i, 10 ** 9, 0)))
    for tag, text, cfgname in progs:
        cfg = cfgs[cfgname] if cfgname else None
        base_i = len(jobs)
        jobs.append({"cfg": cfg, "files": {"t.rb": text}, "args": ["t.rb", "-i"]})
        meta.append(("base", tag, None))
        for kind, at, by, new in edits_for(text, rng, tier):
            jobs.append({"cfg": cfg, "files": {"t.rb": new}, "args": ["t.rb", "-i"]})
            meta.append((kind, tag, (base_i, at, by)))
    wr = C.Runner(work, "worker")
    try:
        results = wr.run_many(jobs)
    finally:
        wr.close()
    compared = 0
    for (kind, tag, ref), job, res in zip(meta, jobs, results):
        if ref is None:
            continue
        base_i, at, by = ref
        b = results[base_i]
        if b.hung or b.crashed or b.get("exit") != 0:
            v.count("base_program_fails_skipped")
            continue
        compared += 1
        want = P.shift_rows(C.parse_lines(b["out"]), at, by)
        got = C.parse_lines(res.get("out") or "") if not (res.hung or res.crashed) else [("!", "", 0, str(res.get("cls")))]
        if tag.startswith("unfinished:"):
            # an unfinished text has no meaning to preserve; what must not happen is that a message both runs print
            # changes its row with the number of trailing newlines (messages about the end of input itself come and go)
            cw = collections.Counter((k, m) for k, f, r_, m in want)
            cg = collections.Counter((k, m) for k, f, r_, m in got)
            both = set(cw) & set(cg)
            rows_w = sorted((k, m, r_) for k, f, r_, m in want if (k, m) in both and cw[(k, m)] == cg[(k, m)])
            rows_g = sorted((k, m, r_) for k, f, r_, m in got if (k, m) in both and cw[(k, m)] == cg[(k, m)])
            if rows_w == rows_g:
                continue
        elif same_output(kind, at, want, got):
            continue
        v.count("differences")
        key = context_key(jobs[base_i]["files"]["t.rb"], kind, at if at < 10 ** 9 else len(jobs[base_i]["files"]["t.rb"].split("\n")))
        if tag.startswith("unfinished:"):
            last = jobs[base_i]["files"]["t.rb"].split("\n")[-1].strip()
            word = last.split(" ")[0] if last else "<blank>"
            key = "unfinished-row-moves-with-trailing-newlines:last-line[%s]" % (word if word in ("def", "class", "module", "if", "unless", "case", "when", "in", "while",
                                                                             "return", "dbtp", "attr_accessor", "private") else "statement")
        if v.seen(key):
            v.again(key)
            continue
        # confirm black-box, alone
        bb = C.confirm_alone(work, {"cfg": job["cfg"], "files": jobs[base_i]["files"], "args": job["args"]}, runs=1)[0]
        eb = C.confirm_alone(work, {"cfg": job["cfg"], "files": job["files"], "args": job["args"]}, runs=1)[0]
        want2 = P.shift_rows(C.parse_lines(bb.get("out") or ""), at, by)
        got2 = C.parse_lines(eb.get("out") or "")
        if tag.startswith("unfinished:"):
            cw = collections.Counter((k, m) for k, f, r_, m in want2)
            cg = collections.Counter((k, m) for k, f, r_, m in got2)
            both = set(cw) & set(cg)
            if sorted((k, m, r_) for k, f, r_, m in want2 if (k, m) in both and cw[(k, m)] == cg[(k, m)]) == \
                    sorted((k, m, r_) for k, f, r_, m in got2 if (k, m) in both and cw[(k, m)] == cg[(k, m)]) or eb.get("timeout"):
                v.count("not_reproduced_blackbox")
                continue
        elif same_output(kind, at, want2, got2) and not eb.get("timeout"):
            v.count("not_reproduced_blackbox")
            continue
        diff = [x for x in got2 if x not in want2][:3] + [("missing",) + x for x in want2 if x not in got2][:3]
        files = C.job_files_for_replay({"cfg": job["cfg"], "files": job["files"], "args": job["args"]})
        files["base/t.rb"] = jobs[base_i]["files"]["t.rb"]
        v.fail(key, "%s: edit %s at row %s changes more than rows: %r" % (tag, kind, at, diff), files,
               detail={"base_out": bb.get("out"), "edited_out": eb.get("out")})
    for (kind, tag, ref), job in list(zip(meta, jobs))[1:4]:
        v.sample({"program": tag, "edit": kind, "at_row": ref and ref[1]})
    cov = {"states": stats["states"], "transitions": stats["transitions"],
           "traces_validated_against_impl": stats.get("rows_behaviours", 0), "rows_parser_reads_compared": stats.get("rows_reads", 0),
           "programs": len(progs), "edited_programs_compared": compared, "notes": v.notes,
           "rule": "Rows.tla behaviours (every token stream up to the bound with strings of 0-2 newlines and Unget) replayed "
                   "into ti/parser; corpus + generated programs x {blank, comment} at statement boundaries, final newline "
                   "added/removed, string literals widened; corpus programs cut inside a line (unfinished call / assignment, as an editor "
                   "sends them) with 0, 1 and 3 trailing newlines"}
    return v.finish("model_checking", cov, assumptions=[
        "statement boundaries of corpus programs are found conservatively (bracket depth 0, no continuation, no heredoc)",
        "outputs compared: diagnostics and -i hints, as ordered lists after rebasing rows"])


def replay(work, path):
    return 0
