"""C03 - tokenizing any text terminates and consumes the whole input.

spec/Lexer.tla is a rule-by-rule transcription of the tokenizer over rune classes.
  1. TLC proves the three clauses on the INTENDED model (all Fix* switches on)
     for every rune-class string up to the tier's length.
  2. TLC runs the AS-IS model (Fix* switches set from known_findings.json) over
     the same space and prints one predicted behaviour per input.
  3. harness/lexdrive replays every behaviour into the real ti/lexer + ti/parser
     (several concrete renderings per class string) and checks (a) the clauses
     of C03 on the real code, (b) step-by-step agreement with the prediction.
Verdicts come from (a) only; a clause violation that the as-is model predicts and
that is listed in known_findings.json is a KNOWN-FINDING, any other is a VIOLATION.
"""
import json
import os
import subprocess

from . import common as C

FULL = ["a", "f", "x", "o", "w", "d", "ud", "sp", "nl", "dq", "sq", "bs", "hash", "lt", "gt", "eq", "dot",
        "pct", "bang", "plus", "minus", "amp", "pipe", "punct", "lc", "colon", "bt", "star", "us", "nul"]
# classes that reach a helper loop, the history mechanism or a special arm
DANGER = ["a", "d", "x", "sp", "nl", "dq", "bs", "hash", "lt", "eq", "dot", "pct", "minus", "colon", "nul", "bt"]

PC_SITE = {"comment": "skipLineComment", "string": "lexString", "toSpace": "lexToSpaceTokenEat",
           "ident": "lexIdentifier"}


def tla_set(xs):
    return "{" + ",".join('"%s"' % x for x in xs) + "}"


def build_lexdrive(work):
    out = os.path.join(work.sub("hbin"), "lexdrive")
    r = subprocess.run(["go", "build", "-tags", "verif", "-o", out, "./lexdrive"],
                       cwd=os.path.join(C.ROOT, "harness"), env=C.go_env(), capture_output=True, text=True)
    if r.returncode != 0:
        raise C.HarnessError("building lexdrive failed: " + r.stderr[-2000:])
    return out


def fix_flags(findings):
    def fixed(key):
        return not any(e["key"].startswith(key) and e.get("status", "open") == "open" for e in findings.entries)
    return {"FIXEOF": "TRUE" if fixed("Dev_LexEOFLoop") else "FALSE",
            "FIXNUL": "TRUE" if fixed("Dev_NulStopsLexer") else "FALSE",
            "FIXBT": "TRUE" if fixed("Dev_BacktickReadError") else "FALSE"}


def replay_space(work, v, lexdrive, alphabet, maxlen, flags, variants, stats):
    """as-is TLC emission over (alphabet, maxlen) replayed into the real lexer."""
    consts = dict(flags)
    consts.update({"ALPHABET": tla_set(alphabet), "MAXLEN": maxlen, "EMIT": "TRUE", "EXTRA": ""})
    env = dict(os.environ)
    env["LEXDRIVE_VARIANTS"] = str(variants)
    p = subprocess.Popen([lexdrive], stdin=subprocess.PIPE, stdout=subprocess.PIPE, text=True, env=env)
    preds = {}
    samples = []

    def feed(line):
        s = json.loads(line)
        b = json.loads(s)
        preds[tuple(b["in"])] = (b["fin"], b["at"], b["pos"], [t["k"] for t in b["toks"]])
        if len(samples) < 3 and len(b["in"]) == maxlen:
            samples.append(b)
        p.stdin.write(s + "\n")

    import threading
    outlines = []
    th = threading.Thread(target=lambda: outlines.extend(p.stdout.readlines()), daemon=True)
    th.start()
    r = C.run_tlc(work, "Lexer", "Lexer_asis.cfg", consts=consts, workers=1, timeout=3000, stream=feed)
    p.stdin.close()
    th.join()
    if p.wait() != 0:
        raise C.HarnessError("lexdrive failed")
    if not r.ok:
        raise C.HarnessError("as-is Lexer model violates a structural invariant: %s" % r.violation)
    stats["states"] += r.distinct
    stats["transitions"] += r.generated
    stats["behaviours"] += len(preds)
    for s in samples:
        v.sample({"input_classes": s["in"], "predicted": {"fin": s["fin"], "tokens": [t["k"] for t in s["toks"]],
                                                            "final_pos": s["pos"]}})
    summary = None
    for line in outlines:
        d = json.loads(line)
        if d.get("summary"):
            summary = d
            continue
        inp = tuple(d["in"])
        pred = preds.get(inp)
        if d.get("drift"):
            v.count("model_drift")
            if len(v.notes) < 10:
                v.notes.append("drift %s: %s" % (list(inp), d["drift"]))
        for cl in d.get("clause") or []:
            key = classify(cl, d, pred, flags)
            v.fail(key, "input classes %s text %r: clause %s on the real lexer (fin=%s site=%s pos=%d/%d)" % (
                list(inp), d["text"], cl, d["fin"], d.get("site"), d["pos"], d["n"]),
                {"input.rb": d["text"].encode("utf-8", "surrogateescape"), "report.json": json.dumps(d, indent=1)})
    if summary is None:
        raise C.HarnessError("lexdrive produced no summary")
    if summary["inputs"] != len(preds):
        raise C.HarnessError("lexdrive saw %d inputs, TLC emitted %d" % (summary["inputs"], len(preds)))
    stats["runs"] += summary["runs"]
    stats["agree"] += summary["agree"]
    stats["drift"] += summary["drift"]
    stats["real_clause_violations"] += summary["clause_violations"]
    return r


def classify(clause, d, pred, flags):
    """Finding key for a clause violation observed on the real code."""
    inp = d["in"]
    if clause.startswith("terminates:spin"):
        if pred and pred[0] == "spin" and PC_SITE.get(pred[1]) == d.get("site") and flags["FIXEOF"] == "FALSE":
            return "Dev_LexEOFLoop:" + d["site"]
        return "unpredicted-spin@%s:%s" % (d.get("site"), ",".join(inp))
    if clause == "consumes-all":
        if pred and pred[0] == "eos" and pred[2] == d["pos"] and "nul" in inp and flags["FIXNUL"] == "FALSE":
            return "Dev_NulStopsLexer"
        return "unpredicted-unconsumed:%s" % ",".join(inp)
    if clause == "read-error":
        if pred and "bt" in pred[3] and flags["FIXBT"] == "FALSE":
            return "Dev_BacktickReadError"
        return "unpredicted-read-error:%s" % ",".join(inp)
    return "unpredicted-%s:%s" % (clause, ",".join(inp))


def run(tier, work):
    v = C.Verdict("C03", tier, work)
    flags = fix_flags(v.findings)
    lexdrive = build_lexdrive(work)
    stats = dict(states=0, transitions=0, behaviours=0, runs=0, agree=0, drift=0, real_clause_violations=0)

    if tier == "quick":
        proofs = [(FULL, 3)]
        spaces = [(FULL, 3, 2)]
    else:
        proofs = [(FULL, 4)]
        spaces = [(FULL, 3, 4), (DANGER, 5, 2)]

    # 1. the design satisfies C03 (intended model), exhaustively
    intended = []
    for alpha, n in proofs:
        r = C.run_tlc(work, "Lexer", "Lexer_intended.cfg", consts={"ALPHABET": tla_set(alpha), "MAXLEN": n},
                      workers=12, timeout=3000, heap="24g")
        if not r.ok:
            raise C.HarnessError("intended Lexer model violates C03: %s" % r.violation)
        intended.append({"alphabet": len(alpha), "maxlen": n, "states": r.distinct, "wall_s": round(r.wall, 1)})
        stats["states"] += r.distinct
        stats["transitions"] += r.generated
    # liveness form on a small instance (fairness, no constraint)
    r = C.run_tlc(work, "Lexer", "Lexer_live.cfg", workers=4, timeout=900,
                  consts={"ALPHABET": tla_set(DANGER), "MAXLEN": 2, "FIXEOF": "TRUE", "FIXNUL": "TRUE", "FIXBT": "TRUE"})
    if not r.ok:
        raise C.HarnessError("intended Lexer model fails the liveness form: %s" % r.violation)
    stats["states"] += r.distinct
    stats["transitions"] += r.generated

    # 2. non-vacuity: with the deviations on, TLC must find each counterexample
    expected = []
    for name, fl, inv in (("Dev_LexEOFLoop", {"FIXEOF": "FALSE", "FIXNUL": "TRUE", "FIXBT": "TRUE"}, "NoSpin"),
                          ("Dev_NulStopsLexer", {"FIXEOF": "TRUE", "FIXNUL": "FALSE", "FIXBT": "TRUE"}, "ConsumesAll"),
                          ("Dev_BacktickReadError", {"FIXEOF": "TRUE", "FIXNUL": "TRUE", "FIXBT": "FALSE"}, "KindsMapped")):
        consts = dict(fl)
        consts.update({"ALPHABET": tla_set(DANGER), "MAXLEN": 2, "EMIT": "FALSE", "EXTRA": inv})
        r = C.run_tlc(work, "Lexer", "Lexer_asis.cfg", consts=consts, workers=4, timeout=600)
        if r.ok:
            raise C.HarnessError("self-test: deviation %s does not violate %s in the model (vacuous)" % (name, inv))
        expected.append("%s violates %s" % (name, inv))

    # 3. replay the as-is behaviours into the real lexer and parser
    for alpha, n, variants in spaces:
        replay_space(work, v, lexdrive, alpha, n, flags, variants, stats)

    if stats["drift"]:
        print("MODEL-DRIFT property=C03 %d runs disagree with the as-is model without violating a clause" % stats["drift"])
    cov = {
        "states": stats["states"], "transitions": stats["transitions"],
        "traces_validated_against_impl": stats["runs"],
        "behaviours_replayed": stats["behaviours"], "runs_agreeing_with_model": stats["agree"],
        "runs_with_model_drift": stats["drift"], "real_runs_violating_a_clause": stats["real_clause_violations"],
        "intended_model_proofs": intended, "deviation_selftests": expected, "asis_flags": flags,
        "exhaustive": True, "notes": v.notes,
        "rule": "every rune-class string up to the bound; behaviours = TLC terminal states of the as-is model, "
                "each replayed with several concrete renderings per class",
    }
    return v.finish("model_checking", cov, assumptions=[
        "rune classes are behaviourally homogeneous (checked by rendering each class with several representatives)",
        "spinning = more than 2000 reads past end of input (corpus maximum is 4)"])
