"""C09 - inferred types agree with literals and declared return types.

TLC enumerates every straight-line program of spec/Core.tla up to the bound (the reference
model: literals, array/hash literals, indexing, push/<<, reassignment, configured calls whose
return specifications cover Is / Self / Unify / OptionalUnify / Argument / SelfArray /
KeyValueArray / unions).  Each program is rendered with a `dbtp` probe of every live variable
after every statement; many programs share one source file under distinct variable names; a
disagreement is re-run alone before it counts.  `-i` bind hints are a second observation.
"""
import collections
import json

from . import common as C
from . import core as K

PER_FILE = 30


def emit(work, stats, maxstmts, rich, dev_ou):
    progs = []

    def feed(line):
        progs.append(json.loads(json.loads(line)))

    r = C.run_tlc(work, "MCCore", "Core.cfg", workers=1, timeout=3000, stream=feed, heap="16g",
                  consts={"MAXSTMTS": maxstmts, "DEV_OU": "TRUE" if dev_ou else "FALSE", "EMIT": "TRUE",
                          "RICH": "TRUE" if rich else "FALSE", "PROPS": ""})
    if not r.ok:
        raise C.HarnessError("Core model violates an invariant: %s" % r.violation)
    stats["states"] += r.distinct
    stats["transitions"] += r.generated
    return progs


def run_batches(work, cfg, progs, stats, args=("t.rb", "-i")):
    """-> per program: list of (probe, observed type or None), plus bind hints per statement"""
    jobs, meta = [], []
    for s in range(0, len(progs), PER_FILE):
        part = progs[s:s + PER_FILE]
        lines, pm = [], []
        for k, prog in enumerate(part):
            pl, probes = K.render_program(prog, "_%d" % k)
            base = len(lines)
            lines.extend(pl)
            pm.append((base, pl, probes))
        jobs.append({"cfg": cfg, "files": {"t.rb": "\n".join(lines) + "\n"}, "args": list(args)})
        meta.append((s, pm))
    wr = C.Runner(work, "worker")
    try:
        results = wr.run_many(jobs)
    finally:
        wr.close()
    out = [None] * len(progs)
    for (s, pm), job, res in zip(meta, jobs, results):
        if res.hung or res.crashed or res.get("exit") != 0:
            # judge the programs of this batch alone instead
            for k in range(len(pm)):
                out[s + k] = "alone"
            stats["batches_failed"] += 1
            continue
        diag, hint = collections.defaultdict(list), collections.defaultdict(list)
        for kind, f, row, msg in C.parse_lines(res["out"]):
            (diag if kind == "d" else hint)[row].append(msg)
        for k, (base, pl, probes) in enumerate(pm):
            obs = []
            for (li, var, exp, si) in probes:
                msgs = diag.get(base + li + 1, [])
                obs.append((var, exp, K.parse_ti_type(msgs[0]) if msgs else None, si, msgs[:1]))
            out[s + k] = obs
        stats["runs"] += 1
    return out


def run_alone(work, cfg, prog):
    lines, probes = K.render_program(prog, "")
    job = {"cfg": cfg, "files": {"t.rb": "\n".join(lines) + "\n"}, "args": ["t.rb"]}
    rr = C.confirm_alone(work, job, runs=1)[0]
    diag = collections.defaultdict(list)
    for kind, f, row, msg in C.parse_lines(rr.get("out") or ""):
        if kind == "d":
            diag[row].append(msg)
    obs = []
    for (li, var, exp, si) in probes:
        msgs = diag.get(li + 1, [])
        obs.append((var, exp, K.parse_ti_type(msgs[0]) if msgs else None, si, msgs[:1]))
    return job, obs, rr


def first_mismatch(obs):
    for var, exp, got, si, raw in obs:
        if got != exp:
            return var, exp, got, si, raw
    return None


def run(tier, work):
    v = C.Verdict("C09", tier, work)
    stats = dict(states=0, transitions=0, runs=0, batches_failed=0)
    dev_open = v.findings.match("C09", "Dev_OptionalUnifyMutatesReceiver") is not None
    maxstmts, rich = (3, False) if tier == "quick" else (3, True)
    # the model's own properties (intended) and the non-vacuity of the deviation
    r = C.run_tlc(work, "MCCore", "Core.cfg", workers=8, timeout=3000, heap="16g",
                  consts={"MAXSTMTS": maxstmts, "DEV_OU": "FALSE", "EMIT": "FALSE", "RICH": "FALSE", "PROPS": "FrameCondition"})
    if not r.ok:
        raise C.HarnessError("intended Core model violates FrameCondition: %s" % r.violation)
    stats["states"] += r.distinct
    stats["transitions"] += r.generated
    r = C.run_tlc(work, "MCCore", "Core.cfg", workers=4, timeout=900,
                  consts={"MAXSTMTS": 2, "DEV_OU": "TRUE", "EMIT": "FALSE", "RICH": "FALSE", "PROPS": "FrameCondition"})
    if r.ok:
        raise C.HarnessError("self-test: Dev_OptionalUnifyMutatesReceiver does not violate FrameCondition (vacuous)")

    progs = emit(work, stats, maxstmts, rich, False)
    asis = {}
    if dev_open:
        for p in emit(work, stats, maxstmts, rich, True):
            asis[K.prog_key(p)] = p
    if tier == "thorough":
        # deeper programs by seeded sampling of the 4-statement space
        rng = C.rng(9)
        extra = []

        def feed(line):
            extra.append(json.loads(json.loads(line)))
        r = C.run_tlc(work, "MCCore", "Core.cfg", workers=1, timeout=3000, stream=feed, heap="16g",
                      simulate="num=20000", extra=["-depth", "6", "-seed", str(C.seed())],
                      consts={"MAXSTMTS": 5, "DEV_OU": "FALSE", "EMIT": "TRUE", "RICH": "TRUE", "PROPS": ""})
        seen = set()
        for p in extra:
            k = K.prog_key(p)
            if k not in seen:
                seen.add(k)
                progs.append(p)
        stats["states"] += len(seen)
        stats["transitions"] += len(extra)
    cfg = K.build_config(work)
    results = run_batches(work, cfg, progs, stats)
    checked = probes = 0
    for prog, obs in zip(progs, results):
        if obs == "alone":
            job, obs, rr = run_alone(work, cfg, prog)
        checked += 1
        probes += len(obs)
        mm = first_mismatch(obs)
        if mm is None:
            continue
        v.count("batch_mismatches")
        if len(v.violations) >= 12:
            v.count("mismatches_not_confirmed_after_12_violations")
            continue
        job, obs2, rr = run_alone(work, cfg, prog)
        mm = first_mismatch(obs2)
        if mm is None:
            v.count("mismatch_only_in_batch")
            continue
        var, exp, got, si, raw = mm
        ops = [K.stmt_short(st["stmt"]) for st in prog]
        key = "unexplained:%s -> %s is %s expected %s" % (" ; ".join(ops[:si + 1]), var, K.show(got), K.show(exp))
        st = prog[si]["stmt"]
        if st["op"] == "opasgn" and var == st["v"] and si > 0:
            before = K.model_type(prog[si - 1]["env"][var])
            if got == before and exp != before:
                # `a += 1.5` with a : Integer keeps Integer: the compound assignment does not take the (conditional)
                # result type of Integer#+
                key = "Dev_OpAssignKeepsLeftType"
        ap = asis.get(K.prog_key(prog))
        if ap is not None:
            # does the as-is model (deviation on) predict exactly what ti says?
            exp2 = K.model_type(ap[si]["env"][var])
            if exp2 == got:
                key = "Dev_OptionalUnifyMutatesReceiver"
        v.fail(key, "program %r: after statement %d `%s`, dbtp %s says %s, the model says %s" % (
            [K.stmt_src(st["stmt"]) for st in prog], si + 1, K.stmt_src(prog[si]["stmt"]), var, raw, K.show(exp)),
            C.job_files_for_replay(job), detail={"out": rr.get("out")})
    for p in progs[:3]:
        v.sample({"program": [K.stmt_src(st["stmt"]) for st in p],
                  "expected_after_last": {k: K.show(K.model_type(t)) for k, t in p[-1]["env"].items()}})
    cov = {"states": stats["states"], "transitions": stats["transitions"], "traces_validated_against_impl": checked,
           "probes_compared": probes, "real_runs": stats["runs"], "batches_failed": stats["batches_failed"],
           "exhaustive": tier == "quick", "notes": v.notes,
           "rule": "every Core.tla behaviour of %d statements over 2 variables (literals, array/hash literals, index, "
                   "push/<<, ternary, copy, multiple assignment, += , calls of configured methods with each return specification incl. "
                   "conditional returns); a dbtp probe "
                   "of every live variable after every statement" % maxstmts}
    return v.finish("model_checking", cov, assumptions=[
        "ti's printed types are compared as sets of classes (variant order and Union nesting ignored)",
        "return specifications resolve as docs/ti-config.md describes them; receivers are single-class values"])


def replay(work, path):
    return 0
