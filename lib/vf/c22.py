"""C22 - definition info and hover point at the right definition.

For every class graph TLC generates (spec/Classes.tla) the concretiser knows the row of every
`def`, whether it defines a class method (def self. / class << self) or an instance method, and
the visibility section it stands in.  Each graph is rendered in three definition styles (plain,
endless `def m = v`, signature over two lines).  Checked on the real binary:
  -i            one signature hint `@t.rb:::<def row>:::... [c|i/<visibility>]` per definition
  --define      one record `%<frame>:::<class>:::<method>:::t.rb:::<def row>` per definition of the queried kind
  --hover       on every row whose call the model resolves: the record of that method (`%<name>:::<Owner>.<name>(...`)
"""
import collections
import re

from . import common as C
from . import classes as K


def expectations(gr, def_rows):
    out = []
    for d in gr["g"]["defs"]:
        row = def_rows.get((d["owner"], d["name"], d["static"]))
        if row is None or d["how"] == "attr":      # attribute accessors have their own hint format: not judged here
            continue
        out.append({"owner": K.PLAIN.get(d["owner"], d["owner"]), "name": d["name"], "static": d["static"], "vis": d["vis"], "row": row,
                    "how": d["how"]})
    return out


def run(tier, work):
    v = C.Verdict("C22", tier, work)
    rng = C.tier_rng(tier, 22)
    stats = dict(states=0, transitions=0, runs=0)
    graphs = rng.sample(K.emit(work, stats), 120 if tier == "quick" else 2500)
    jobs, meta = [], []
    from . import c16
    places = c16.choose_places(work, stats, graphs, rng)
    for gi, gr in enumerate(graphs):
        for style in ("normal", "endless", "multiline", "endless2", "placed"):
            pl = places[gi] if style == "placed" else None
            dl, info = K.render(gr, K.PLAIN, style="normal" if style == "placed" else style, place=pl)
            ql, exp = K.query_lines(gr, K.PLAIN, place=pl)
            # factories: a top-level method and a method of a class in its own namespace, each returning an instance of the
            # graph's first class (which may live in another namespace): hover on their calls must show THEIR signature
            k1 = gr["shape"][0]
            ar1 = gr["q"][k1]["arity"]
            newexpr = "%s.new%s" % (K.path_of(k1, K.PLAIN, pl), "(1)" if ar1 == 1 else "")
            fl = ["def vf_make", "  " + newexpr, "end", "vf_obj = vf_make",
                  "module Vfh", "  class Factory", "    def build", "      " + newexpr, "    end", "  end", "end",
                  "vf_built = Vfh::Factory.new.build"]
            factory_rows = {("vf_make", ""): len(dl) + len(ql) + 4, ("build", "Factory"): len(dl) + len(ql) + 12}
            text = "\n".join(dl + ql + fl) + "\n"
            defs = expectations(gr, info["def_rows"])
            jobs.append({"files": {"t.rb": text}, "args": ["t.rb", "-i"]})
            meta.append(("hints", gi, style, defs, None))
            # one instance-query row and one class-query row for --define, every resolvable row for --hover
            inst_rows = [len(dl) + e[0] + 1 for e in exp if e[1] == "inst" and e[4]["k"] == "ok"]
            stat_rows = [len(dl) + e[0] + 1 for e in exp if e[1] == "static" and e[4]["k"] == "ok" and e[3] == "foo"]
            if inst_rows:
                jobs.append({"files": {"t.rb": text}, "args": ["t.rb", "--define", "--row=%d" % inst_rows[0]]})
                meta.append(("define", gi, style, [d for d in defs if not d["static"]], None))
            if stat_rows:
                jobs.append({"files": {"t.rb": text}, "args": ["t.rb", "--define", "--row=%d" % stat_rows[0]]})
                meta.append(("define-static", gi, style, [d for d in defs if d["static"]], None))
            for (fname, fowner), frow in factory_rows.items():
                jobs.append({"files": {"t.rb": text}, "args": ["t.rb", "--hover", "--row=%d" % frow]})
                meta.append(("hover", gi, style + "/factory", defs, (fname, fowner)))
            oks = [e for e in exp if e[4]["k"] == "ok" and e[1] in ("inst", "static") and not e[4].get("attr")]
            for e in (oks if tier == "thorough" else oks[:3]):
                owner = resolve_owner(gr, e)
                jobs.append({"files": {"t.rb": text}, "args": ["t.rb", "--hover", "--row=%d" % (len(dl) + e[0] + 1)]})
                meta.append(("hover", gi, style, defs, (e[3], owner)))
    wr = C.Runner(work, "worker")
    try:
        results = wr.run_many(jobs)
    finally:
        wr.close()
    checked = 0
    for (kind, gi, style, defs, extra), job, res in zip(meta, jobs, results):
        if res.hung or res.crashed or res.get("exit") != 0:
            key = "%s:crash-or-hang:%s@%s" % (kind, res.get("cls"), res.get("site"))
            if not v.seen(key):
                v.fail(key, "editor query fails", C.job_files_for_replay(job))
            else:
                v.again(key)
            continue
        stats["runs"] += 1
        for key, what in judge(kind, style, defs, extra, res["out"]):
            checked += 1
            if v.seen(key):
                v.again(key)
                continue
            rr = C.confirm_alone(work, job, runs=1)[0]
            if not any(k == key for k, _ in judge(kind, style, defs, extra, rr.get("out") or "")):
                v.count("not_reproduced_blackbox")
                continue
            v.fail(key, "%s (%s style): %s" % (" ".join(job["args"][1:]), style, what), C.job_files_for_replay(job), detail={"out": (rr.get("out") or "")[:3000]})
    v.sample({"program": K.render(graphs[0], K.PLAIN, style="multiline")[0][:14]})
    cov = {"states": stats["states"], "transitions": stats["transitions"], "traces_validated_against_impl": stats["runs"],
           "graphs": len(graphs), "styles": 5,
           "rule": "TLC-generated class graphs x 4 definition styles + one rendering with every class / module in a namespace of its own; -i hints, --define records (instance and class query rows), "
                   "--hover on rows whose call the model resolves"}
    return v.finish("model_checking", cov, assumptions=["the row of a definition is the row of its `def` keyword"])


def resolve_owner(gr, e):
    """class or module whose definition the model resolves the query to"""
    li, kind, c, name, exp = e
    chain, cur = [], c
    while cur and cur not in chain:
        chain.append(cur)
        cur = gr["g"]["sup"][cur]
    for cl in chain:
        for d in gr["g"]["defs"]:
            if d["name"] == name and d["owner"] == cl and d["static"] == (kind == "static"):
                return K.PLAIN[cl]
        mods = gr["g"]["inc"][cl] if kind == "inst" else gr["g"]["ext"][cl]
        for mname in mods:
            for d in gr["g"]["defs"]:
                if d["name"] == name and d["owner"] == mname and not d["static"]:
                    return K.PLAIN[mname]
    return "?"


def judge(kind, style, defs, extra, out):
    bad = []
    if kind == "hints":
        hints = [(row, msg) for k, f, row, msg in C.parse_lines(out) if k == "h" and " -> " in msg]
        for d in defs:
            tag = "[%s/%s]" % ("c" if d["static"] else "i", d["vis"])
            at_row = [m for r, m in hints if r == d["row"]]
            how = "%s%s" % ("static-" + d["how"] if d["static"] else "inst", "-" + d["vis"])
            if not at_row:
                bad.append(("hint-missing:%s:%s" % (style, how), "no signature hint on row %d for %s#%s" % (d["row"], d["owner"], d["name"])))
            elif not any(m.endswith(tag) for m in at_row):
                bad.append(("hint-tag:%s:%s" % (style, how), "hint on row %d for %s#%s is %r, expected tag %s" % (d["row"], d["owner"], d["name"], at_row, tag)))
    elif kind in ("define", "define-static"):
        recs = set()
        for line in out.split("\n"):
            if line.startswith("%") and line.count(":::") == 4:
                fr, cl, me, fi, ro = line[1:].split(":::")
                recs.add((cl, me, fi, ro))
        for d in defs:
            if (d["owner"], d["name"], "t.rb", str(d["row"])) not in recs:
                how = "%s%s" % ("static-" + d["how"] if d["static"] else "inst", "-" + d["vis"])
                bad.append(("define-record-missing:%s:%s:%s" % (kind, style, how), "no record for %s#%s at row %d" % (d["owner"], d["name"], d["row"])))
    elif kind == "hover":
        name, owner = extra
        recs = [l for l in out.split("\n") if l.startswith("%")]
        ok = any(l[1:].split(":::")[0] == name and (("%s.%s(" % (owner, name)) if owner else (":::%s(" % name)) in l for l in recs)
        if not ok:
            bad.append(("hover:%s" % style, "hover shows %r, expected the signature of %s.%s" % (recs[:2], owner, name)))
    return bad


def replay(work, path):
    return 0
