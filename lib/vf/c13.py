"""C13 - consistently renaming user identifiers changes nothing but the names.

In the TLA+ models identifiers are abstract values; the concretiser owns the naming, so one
behaviour has one prediction whatever names are chosen.  Replay: (a) TLC-generated programs
(Core, Narrow, Blocks, Classes behaviours) are rendered under different naming schemes -
locals, methods, classes and modules renamed to fresh names of several lengths including
one-character names - (b) corpus programs get one local variable, one user-defined method or
one user-defined class renamed by the harness' own scanner (whole-word, outside strings and
comments, only identifiers it can classify safely).  The renamed program's output must equal
the original output with the same substitution applied.
"""
import json
import os
import re

from . import common as C
from . import pool as P
from . import classes as K

KEYWORDS = set("def class module if unless elsif else end do while until case when in return self then begin rescue ensure "
               "yield nil true false and or not super for break next redo retry alias undef defined private public protected "
               "include extend require attr_accessor attr_reader attr_writer puts p print raise loop lambda proc new dbtp dbp".split())
LOCAL_NAMES = ["q", "_x", "abc_1", "renamed_local_variable"]
METHOD_NAMES = ["w", "zz9", "renamed_method_name"]
CLASS_NAMES = ["Qx", "Abcdef", "Q"]


def config_names():
    names = set()
    for f in os.listdir(C.SHIPPED_CFG):
        try:
            d = json.load(open(os.path.join(C.SHIPPED_CFG, f)))
        except Exception:
            continue
        names.add(d.get("class", ""))
        for k in ("instance_methods", "class_methods", "constants"):
            for m in d.get(k) or []:
                names.add(m.get("name", ""))
        # every identifier the configuration mentions anywhere (type strings such as "Hoge::Fuga", extends, frames):
        # a program name the configuration refers to is not a free user identifier
        names |= set(re.findall(r"[A-Za-z_][A-Za-z0-9_]*", json.dumps(d)))
    return names


def code_positions(text):
    """mask of characters that are code (not inside strings / comments / heredocs); None if unsure"""
    mask = []
    for line in text.split("\n"):
        m = [True] * len(line)
        i, n = 0, len(line)
        while i < n:
            c = line[i]
            if c == "#":
                for j in range(i, n):
                    m[j] = False
                break
            if c in "\"'`":
                j = i + 1
                while j < n and line[j] != c:
                    j += 2 if line[j] == "\\" else 1
                if j >= n:
                    return None
                for k in range(i, j + 1):
                    m[k] = False
                i = j + 1
                continue
            i += 1
        if "<<~" in line or "<<-" in line or re.search(r"<<[A-Z]", line) or "%w" in line or "%i" in line or "=begin" in line:
            return None
        mask.append(m)
    return mask


def rename(text, old, new, kind="local"):
    """whole-word replacement of old by new in code positions only (a method name also after a dot)"""
    mask = code_positions(text)
    if mask is None:
        return None
    out = []
    before = "A-Za-z0-9_@$:?!" + ("" if kind == "method" else ".")
    pat = re.compile(r"(?<![%s])%s(?![A-Za-z0-9_?!:=])|(?<![%s])%s(?==[^=~>])" % (before, re.escape(old), before, re.escape(old)))
    for line, m in zip(text.split("\n"), mask):
        res, last = [], 0
        for mt in pat.finditer(line):
            if all(m[mt.start():mt.end()]):
                res.append(line[last:mt.start()])
                res.append(new)
                last = mt.end()
        res.append(line[last:])
        out.append("".join(res))
    return "\n".join(out)


def candidates(text, cfgnames):
    """-> dict kind -> list of identifiers that can be renamed safely"""
    mask = code_positions(text)
    if mask is None:
        return {}
    code = "\n".join("".join(ch if ok else " " for ch, ok in zip(line, m)) for line, m in zip(text.split("\n"), mask))
    words = set(re.findall(r"[A-Za-z_][A-Za-z0-9_]*", code))
    out = {"local": [], "method": [], "class": []}
    for w in sorted(words):
        if w in KEYWORDS or w in cfgnames:
            continue
        dotted = re.search(r"[.:@$&]%s\b|\b%s[:(]|\b%s\s*\{|def\s+(self\.)?%s\b|\|[^|\n]*\b%s\b[^|\n]*\|" % ((re.escape(w),) * 5), code)
        if re.match(r"[a-z_]", w):
            assigned = re.search(r"^\s*%s\s*=[^=~>]" % re.escape(w), code, re.M)
            if assigned and not dotted and not re.search(r"\b%s\s+[a-z0-9\"':\[]" % re.escape(w), code):
                out["local"].append(w)
            if re.search(r"^\s*def\s+%s\b" % re.escape(w), code, re.M) and not re.search(r"[:@$]%s\b|\b%s:" % (re.escape(w), re.escape(w)), code) \
                    and not re.search(r"^\s*%s\s*=[^=]" % re.escape(w), code, re.M) and w not in ("initialize", "method_missing", "to_s", "inspect"):
                out["method"].append(w)
        elif re.match(r"[A-Z][A-Za-z0-9]*[a-z]", w):
            if re.search(r"^\s*class\s+%s\b" % re.escape(w), code, re.M) and not re.search(r"::%s\b|\b%s::" % (re.escape(w), re.escape(w)), code):
                out["class"].append(w)
    return out


def subst_output(out, old, new):
    # the [i/public] / [c/private] tags of signature hints are not identifiers
    # ... nor is the program's own file name (t.rb) when a local happens to be called t
    return re.sub(r"(?<![A-Za-z0-9_\[])%s(?![A-Za-z0-9_]|\.rb:::)|(?<=\[)%s(?![A-Za-z0-9_/])" % (re.escape(old), re.escape(old)), new, out)


def run(tier, work):
    v = C.Verdict("C13", tier, work)
    rng = C.tier_rng(tier, 13)
    stats = dict(states=0, transitions=0)
    cfgnames = config_names()
    jobs, meta = [], []
    # (a) generated class programs under several naming schemes
    graphs = rng.sample(K.emit(work, stats), 120 if tier == "quick" else 2000)
    schemes = [{"K1": "Qx", "K2": "Abcdef", "K3": "Zeta9", "M1": "Mm"}, {"K1": "A1b", "K2": "Bb", "K3": "Cc", "M1": "Helperish"}]
    for gr in graphs:
        dl, _ = K.render(gr, K.PLAIN)
        ql, _ = K.query_lines(gr, K.PLAIN)
        base_text = "\n".join(dl + ql) + "\n"
        base_i = len(jobs)
        jobs.append({"files": {"t.rb": base_text}, "args": ["t.rb", "-i"]})
        meta.append(None)
        for sch in schemes:
            dl2, _ = K.render(gr, sch)
            ql2, _ = K.query_lines(gr, sch)
            jobs.append({"files": {"t.rb": "\n".join(dl2 + ql2) + "\n"}, "args": ["t.rb", "-i"]})
            meta.append((base_i, "classes", "class", [(K.PLAIN[k], sch[k]) for k in sch]))
    # (b) generated straight-line / conditional / block programs: locals renamed
    gens = P.generated(work, stats, rng, *((10, 8, 8) if tier == "quick" else (60, 40, 40)))
    cfgs = P.gen_configs(work)
    for tag, text, cfgname in gens:
        base_i = len(jobs)
        jobs.append({"cfg": cfgs[cfgname], "files": {"t.rb": text}, "args": ["t.rb", "-i"]})
        meta.append(None)
        cands = candidates(text, cfgnames).get("local", [])
        for old in cands[:3]:
            for new in LOCAL_NAMES:
                if re.search(r"\b%s\b" % re.escape(new), text):
                    continue
                t2 = rename(text, old, new)
                if t2 is None or t2 == text:
                    continue
                jobs.append({"cfg": cfgs[cfgname], "files": {"t.rb": t2}, "args": ["t.rb", "-i"]})
                meta.append((base_i, tag, "local", [(old, new)]))
    # (c) corpus programs: one identifier of each kind
    for tag, text in P.corpus(rng, 70 if tier == "quick" else 585):
        cands = candidates(text, cfgnames)
        if not any(cands.values()):
            continue
        base_i = len(jobs)
        jobs.append({"files": {"t.rb": text}, "args": ["t.rb", "-i"]})
        meta.append(None)
        for kind, fresh in (("local", LOCAL_NAMES), ("method", METHOD_NAMES), ("class", CLASS_NAMES)):
            pool = cands.get(kind) or []
            for old in (rng.sample(pool, min(len(pool), 2))):
                for new in fresh:
                    if re.search(r"\b%s\b" % re.escape(new), text):
                        continue
                    t2 = rename(text, old, new, kind)
                    if t2 is None or t2 == text:
                        continue
                    jobs.append({"files": {"t.rb": t2}, "args": ["t.rb", "-i"]})
                    meta.append((base_i, tag, kind, [(old, new)]))
    wr = C.Runner(work, "worker")
    try:
        results = wr.run_many(jobs)
    finally:
        wr.close()
    compared = 0
    for m, job, res in zip(meta, jobs, results):
        if m is None:
            continue
        base_i, tag, kind, pairs = m
        b = results[base_i]
        if b.hung or b.crashed or b.get("exit") != 0:
            v.count("base_fails_skipped")
            continue
        compared += 1
        want = b["out"]
        for old, new in pairs:
            want = subst_output(want, old, new)
        got = res.get("out") or ""
        if want == got and not (res.hung or res.crashed):
            continue
        newlen = "1-char" if any(len(n) == 1 for _, n in pairs) else "multi-char"
        key = "%s-rename/%s%s" % (kind, newlen, "" if tag != "classes" else "/generated-classes")
        if res.hung or res.crashed:
            key += "/crash-or-hang:%s" % res.get("site")
        if v.seen(key):
            v.again(key)
            continue
        a2 = C.confirm_alone(work, {"cfg": jobs[base_i].get("cfg"), "files": jobs[base_i]["files"], "args": job["args"]}, runs=1)[0]
        b2 = C.confirm_alone(work, {"cfg": job.get("cfg"), "files": job["files"], "args": job["args"]}, runs=1)[0]
        want2 = a2.get("out") or ""
        for old, new in pairs:
            want2 = subst_output(want2, old, new)
        if want2 == (b2.get("out") or "") and not b2.get("timeout") and not b2.get("panic"):
            v.count("not_reproduced_blackbox")
            continue
        lw, lg = want2.split("\n"), (b2.get("out") or "").split("\n")
        diff = [x for x in lg if x not in lw][:3] + ["missing: " + x for x in lw if x not in lg][:3]
        files = C.job_files_for_replay({"cfg": job.get("cfg"), "files": job["files"], "args": job["args"]})
        files["base/t.rb"] = jobs[base_i]["files"]["t.rb"]
        v.fail(key, "%s: renaming %s %s changes the output beyond the names: %r" % (tag, kind, pairs, diff), files)
    # (d) spec/Names.tla: every binding position of every lexical category written with every spelling of the category
    from . import names as N
    names_info = N.run(v, work, stats, "class-rename/1-char")
    compared += names_info["spellings_compared"]
    v.sample({"naming_schemes": schemes, "fresh_locals": LOCAL_NAMES, "fresh_classes": CLASS_NAMES})
    cov = {"states": stats["states"], "transitions": stats["transitions"], "traces_validated_against_impl": compared,
           "renamings_compared": compared, "binding_positions": names_info,
           "rule": "TLC-generated class programs under 3 naming schemes; generated straight-line / conditional / block programs with "
                   "locals renamed; corpus programs with one local / method / class renamed (names of 1 to 22 characters); Names.tla: 30 "
                   "binding positions (assignment forms, block / method / keyword / rest parameters, pattern variables, rescue, for, "
                   "def / def self. / attr_*, class / module / constant, @ivar, $gvar) x every spelling of the category"}
    return v.finish("model_checking", cov, assumptions=[
        "corpus identifiers are renamed only when the harness' scanner can classify them (assigned locals never used with a dot, "
        "keyword or block syntax; def'd method names not used as symbols or keys; class names without namespace use)",
        "names of configured classes / methods and keywords are never chosen or replaced"])


def replay(work, path):
    return 0
