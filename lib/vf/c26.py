"""C26 - c2json signatures accept exactly the argument counts the C binding accepts.

spec/Tools.tla: every MRB_ARGS combination (REQ 0-2, OPT 0-2, REST, POST 0-1, BLOCK) and every
mrb_get_args format of up to 4 characters over i S o | * &, with the argument list c2json
derives and the arities the C definition accepts.  TLC checks accept(k) <=> C accepts k for
k = 0..6 on the intended model, and on the as-is model (the regular expression capturing the
MRB_ARGS expression stops at the first ')') to predict where ti-c2json deviates.
Binding: a C source per case -> the real ti-c2json (run twice, bytes compared) -> the emitted
configuration (plus a `new` class method: harness scaffolding) loaded into ti -> calls with
0..6 arguments.
"""
import json
import os
import subprocess

from . import common as C
from . import tools as T


GET_T = ["INT", "STRING", "FLOAT"]


def c_source(cases):
    out = ["#include <mruby.h>", ""]
    regs = []
    for i, c in enumerate(cases):
        fn = "vf_fn_%d" % i
        body = "  return mrb_nil_value();"
        form = c.get("form", "method")
        if c["kind"] == "cgetarg":
            g = c["g"]
            reads = []
            for a in range(1, g["n"] + 1):
                line = "int a%d = GET_%s_ARG(%d);" % (a, GET_T[(a - 1) % 3], a)
                reads.append(line)
            if g["m"] > 0:
                plain, guarded = reads[:g["m"] - 1], reads[g["m"] - 1:]
                lines = ["  " + x for x in plain] + ["  if (argc >= %d) {" % g["m"]] + ["    " + x for x in guarded] + ["  }"]
            else:
                lines = ["  " + x for x in reads]
            out.append("static void c_%s(mrbc_vm *vm, mrbc_value v[], int argc)\n{\n%s\n}\n" % (fn, "\n".join(lines)))
            regs.append("  mrbc_define_method(vm, cls, \"m%d\", c_%s);" % (i, fn))
            continue
        if c["kind"] == "cany":
            spec = "MRB_ARGS_ANY()"
        elif c["kind"] == "cspec":
            s = c["c"]
            macros = []
            if s["r"]:
                macros.append("MRB_ARGS_REQ(%d)" % s["r"])
            if s["o"]:
                macros.append("MRB_ARGS_OPT(%d)" % s["o"])
            if s["rest"]:
                macros.append("MRB_ARGS_REST()")
            if s["p"]:
                macros.append("MRB_ARGS_POST(%d)" % s["p"])
            if s["blk"]:
                macros.append("MRB_ARGS_BLOCK()")
            spec = "|".join(macros) if macros else "MRB_ARGS_NONE()"
        else:
            fmt = "".join(c["f"])
            # the aspec of a function that parses its arguments itself is informational: keep it neutral
            spec = "MRB_ARGS_OPT(0)"
            body = "  mrb_get_args(mrb, \"%s\");\n  return mrb_nil_value();" % fmt if fmt else body
        out.append("static mrb_value %s(mrb_state *mrb, mrb_value self)\n{\n%s\n}\n" % (fn, body))
        if form == "method_id":
            regs.append("  mrb_define_method_id(mrb, cls, MRB_SYM(m%d), %s, %s);" % (i, fn, spec))
        elif form == "class_method":
            regs.append("  mrb_define_class_method(mrb, cls, \"m%d\", %s, %s);" % (i, fn, spec))
        else:
            regs.append("  mrb_define_method(mrb, cls, \"m%d\", %s, %s);" % (i, fn, spec))
    out.append("void mrb_vf_gem_init(mrb_state *mrb)\n{\n  struct RClass *cls = mrb_define_class(mrb, \"VfC\", mrb->object_class);\n%s\n}\n" % "\n".join(regs))
    return "\n".join(out)


def case_text(c):
    return json.dumps(c.get("c") or c.get("g") or ("".join(c["f"]) if "f" in c else "MRB_ARGS_ANY")) + (
        "/" + c["form"] if c.get("form", "method") != "method" else "")


def kind_of(a):
    t = (a.get("type") or [""])[0]
    key = a.get("key") or ""
    if key.startswith("*"):
        return "rest"
    if "Block" in t:
        return "block"
    if t.startswith("?"):
        return "opt"
    return "req"


def run(tier, work):
    v = C.Verdict("C26", tier, work)
    rng = C.tier_rng(tier, 26)
    stats = dict(states=0, transitions=0)
    whole = v.findings.match("C26", "Dev_ArgsSpecCutAtFirstParen") is None
    if not T.model_holds(work, stats, "cspec", True, True, "SpecArity") or not T.model_holds(work, stats, "cfmt", True, True, "FmtArity"):
        raise C.HarnessError("intended c2json model violates the arity equivalence")
    if T.model_holds(work, stats, "cspec", True, False, "SpecArity"):
        raise C.HarnessError("self-test: truncated MRB_ARGS still satisfies the arity equivalence (vacuous)")
    if not T.model_holds(work, stats, "cany", True, True, "AnyArity") or not T.model_holds(work, stats, "cgetarg", True, True, "GetArity"):
        raise C.HarnessError("intended c2json model violates the arity equivalence (ANY / GET_ARG)")
    cases = (T.emit(work, stats, "cspec", True, whole) + T.emit(work, stats, "cany", True, True)
             + T.emit(work, stats, "cgetarg", True, True) + T.emit(work, stats, "cfmt", True, True))
    if tier == "quick":
        fmts = [c for c in cases if c["kind"] == "cfmt"]
        cases = [c for c in cases if c["kind"] != "cfmt"] + rng.sample(fmts, 150)
    tool = T.build_tool(work, "./cmd/c2json", "ti-c2json")
    d = work.sub("c2json")
    src = os.path.join(d, "vf.c")
    open(src, "w").write(c_source(cases))
    outs = []
    for k in range(2):
        r = subprocess.run([tool, "-class", "VfC", src], capture_output=True, text=True, cwd=d)
        if r.returncode != 0:
            raise C.HarnessError("ti-c2json failed: %s" % r.stderr[-800:])
        outs.append(r.stdout)
    if outs[0] != outs[1]:
        v.fail("nondeterministic-output", "two conversions of the same C file differ", {"input/vf.c": c_source(cases)})
    conf = json.loads(outs[0])
    byname = {m["name"]: m for m in conf.get("instance_methods") or []}
    byname_static = {m["name"]: m for m in conf.get("class_methods") or []}
    conf.setdefault("class_methods", []).append({"name": "new", "arguments": [], "return_type": {"type": ["VfC"]}})
    cfg = T.config_with(work, "c2jsoncfg", [conf])
    jobs, meta = [], []
    shape_checked = 0
    for i, c in enumerate(cases):
        static = c.get("form") == "class_method"
        m = (byname_static if static else byname).get("m%d" % i)
        if m is None:
            key = "method-dropped:%s:%s" % (c["kind"], c.get("form", "method"))
            if not v.seen(key):
                v.fail(key, "ti-c2json emitted no %s method for case %s" % ("class" if static else "instance", case_text(c)),
                       {"input/vf.c": c_source([c])})
            else:
                v.again(key)
            continue
        got = [kind_of(a) for a in m["arguments"]]
        want = [a["kind"] for a in c["e"]]
        shape_checked += 1
        if got != want:
            v.count("emission_differs_from_model")
            if len(v.notes) < 6:
                v.notes.append("model-drift: %s emitted %s, model %s" % (case_text(c), got, want))
        rows = ["o = VfC.new"] + T.arity_rows("VfC" if static else "o", "m%d" % i, [], m["arguments"])
        jobs.append({"cfg": cfg, "files": {"t.rb": "\n".join(rows) + "\n"}, "args": ["t.rb"]})
        meta.append(i)
    wr = C.Runner(work, "worker")
    try:
        results = wr.run_many(jobs)
    finally:
        wr.close()
    checked = 0
    for i, job, res in zip(meta, jobs, results):
        c = cases[i]
        if res.hung or res.crashed or res.get("exit") != 0:
            key = "ti-fails-on-converted-config:%s" % res.get("site")
            if not v.seen(key):
                v.fail(key, "ti fails on the configuration converted from %s" % case_text(c), C.job_files_for_replay(job))
            continue
        acc = T.accepted_by_row(res["out"], 2, 7)
        want = [c["acc"][str(k)] if isinstance(c["acc"], dict) else c["acc"][k] for k in range(7)]
        checked += 1
        if c["kind"] == "cgetarg":
            # an mrubyc function does not check argc itself: what happens with MORE arguments than it reads is not
            # defined by the C source, so only k <= n is judged
            top = max(k for k in range(7) if want[k])
            acc, want = acc[:top + 1], want[:top + 1]
        if acc == want:
            continue
        if c["kind"] == "cspec":
            nm = len(c["macros"])
            asis = [c["asisacc"][str(k)] if isinstance(c["asisacc"], dict) else c["asisacc"][k] for k in range(7)]
            if not whole and nm >= 2 and acc == asis:
                key = "Dev_ArgsSpecCutAtFirstParen"
            elif c["c"]["rest"] and c["c"]["blk"]:
                key = "Dev_BlockParamAfterRestTakesPositional"
            elif c["c"]["o"] >= 1 and c["c"]["p"] >= 1:
                key = "Dev_TrailingAfterOptionalArity"
            else:
                key = "arity:MRB_ARGS:%s" % "|".join(c["macros"])
        elif c["kind"] == "cany":
            key = "arity:MRB_ARGS_ANY:%s" % c["form"]
        elif c["kind"] == "cgetarg":
            key = "arity:GET_ARG:n%d-argc%d" % (c["g"]["n"], c["g"]["m"])

        else:
            key = "arity:get_args:%s" % "".join(c["f"])
            if "*" in c["f"] and "&" in c["f"]:
                key = "Dev_BlockParamAfterRestTakesPositional"
        if v.seen(key):
            v.again(key)
            continue
        rr = C.confirm_alone(work, job, runs=1)[0]
        if T.accepted_by_row(rr.get("out") or "", 2, 7) == want:
            v.count("not_reproduced_alone")
            continue
        files = C.job_files_for_replay(job)
        files["input/vf.c"] = c_source([c])
        v.fail(key, "%s: the C definition accepts %s arguments, ti with the generated configuration accepts %s" % (
            case_text(c), [k for k in range(len(want)) if want[k]], [k for k in range(len(acc)) if acc[k]]), files)
    v.sample({"case": cases[5]})
    cov = {"states": stats["states"], "transitions": stats["transitions"], "traces_validated_against_impl": shape_checked,
           "cases": len(cases), "arity_probes": checked * 7, "notes": v.notes, "exhaustive": tier != "quick",
           "rule": "72 MRB_ARGS combinations x 3 definition forms (mrb_define_method / _method_id / _class_method), MRB_ARGS_ANY, "
                   "mrbc_define_method bodies with GET_*_ARG(1..n) and an argc guard, mrb_get_args formats of up to 4 characters over "
                   "i S o | * & ! ? - all enumerated by TLC; one C function per case, "
                   "the real ti-c2json run twice, its configuration loaded into ti and every method called with 0..6 arguments"}
    return v.finish("model_checking", cov, assumptions=[
        "a `new` class method is added to the generated configuration so that instance methods can be called (scaffolding)",
        "functions with an mrb_get_args format carry a neutral aspec: the format decides the arity, as in mruby"])


def replay(work, path):
    return 0
