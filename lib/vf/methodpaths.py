"""Concretiser and judges for spec/MethodPaths.tla (C15 and C24): Top#mm reached through Mid < Top and
Leaf < Mid, the three classes placed in namespaces, call sites at the top level, in a top-level method and
inside methods of classes in namespaces."""
import collections
import json

from . import common as C
from . import methodbodies as MB

LIT = {"Integer": "1", "String": "\"s\"", "Float": "1.5"}
SUP = {"Mid": "Top", "Leaf": "Mid"}


def emit(work, stats, maxsites):
    progs = []
    r = C.run_tlc(work, "MCMethodPaths", "MethodPaths.cfg", workers=2, timeout=3000, heap="16g",
                  stream=lambda l: progs.append(json.loads(json.loads(l))),
                  consts={"MAXSITES": maxsites, "EMIT": "TRUE"})
    if not r.ok:
        raise C.HarnessError("MethodPaths model violates its own properties: %s" % r.violation)
    stats["states"] += r.distinct
    stats["transitions"] += r.generated
    return progs


def ref(place, frm_ns, cls):
    """how code written inside namespace frm_ns names the class"""
    ns = place[cls]
    if ns == "" or ns == frm_ns:
        return cls
    return ns + "::" + cls


def render(p):
    """-> (lines, info). info: def_row, arg_probe, result_probe {i: row or None}, site_row {i: row},
    site_method {i: enclosing method name or 'top level'}, site_class {i: enclosing class or ''}"""
    place = p["place"]
    lines = []
    info = {"result_probe": {}, "site_row": {}, "site_method": {}, "site_class": {}}
    for cls in ("Top", "Mid", "Leaf"):
        ns = place[cls]
        ind = ""
        if ns:
            lines.append("module %s" % ns)
            ind = "  "
        head = "class %s" % cls + (" < %s" % ref(place, ns, SUP[cls]) if cls in SUP else "")
        lines.append(ind + head)
        if cls == "Top":
            lines.append(ind + "  def mm(arg)")
            info["def_row"] = len(lines)
            lines.append(ind + "    dbtp arg")
            info["arg_probe"] = len(lines)
            lines.append(ind + "    arg")
            lines.append(ind + "  end")
        lines.append(ind + "end")
        if ns:
            lines.append("end")
    for i, s in enumerate(p["sites"]):
        frm = s["from"]
        if frm == "toplevel":
            lines.append("r%d = %s.new.mm(%s)" % (i, ref(place, "", s["via"]), LIT[s["c"]]))
            info["site_row"][i] = len(lines)
            info["site_method"][i] = "top level"
            info["site_class"][i] = ""
            lines.append("dbtp r%d" % i)
            info["result_probe"][i] = len(lines)
        elif frm == "method":
            lines.append("def caller%d" % i)
            lines.append("  %s.new.mm(%s)" % (ref(place, "", s["via"]), LIT[s["c"]]))
            info["site_row"][i] = len(lines)
            info["site_method"][i] = "caller%d" % i
            info["site_class"][i] = ""
            lines.append("end")
            lines.append("r%d = caller%d" % (i, i))
            lines.append("dbtp r%d" % i)
            info["result_probe"][i] = len(lines)
        else:
            lines.append("module %s" % frm)
            lines.append("  class Runner%d" % i)
            lines.append("    def run")
            lines.append("      %s.new.mm(%s)" % (ref(place, frm, s["via"]), LIT[s["c"]]))
            info["site_row"][i] = len(lines)
            info["site_method"][i] = "run"
            info["site_class"][i] = "Runner%d" % i
            lines += ["    end", "  end", "end"]
            lines.append("r%d = %s::Runner%d.new.run" % (i, frm, i))
            lines.append("dbtp r%d" % i)
            info["result_probe"][i] = len(lines)
    return lines, info


def shape(p, i):
    s = p["sites"][i]
    steps = {"Top": 0, "Mid": 1, "Leaf": 2}[s["via"]]
    return "via-%d-steps%s/from-%s" % (steps, "-crossing-namespaces" if p["cross"][i] else "", "namespace" if s["from"] in ("Na", "Nb") else s["from"])


def judge_types(p, info, out):
    """C15: parameter covers every site's argument class, results equal the parameter type, -i signature agrees"""
    diag = collections.defaultdict(list)
    hints = collections.defaultdict(list)
    for kind, f, row, msg in C.parse_lines(out):
        (diag if kind == "d" else hints)[row].append(msg)
    bad = []
    want = set(p["argT"])
    got = MB.names_of(diag.get(info["arg_probe"]))
    if got != "untyped" and not (got is not None and want <= got):
        missing = want - (got or set())
        culprits = sorted({shape(p, i) for i, s in enumerate(p["sites"]) if s["c"] in missing}) or ["?"]
        bad.append(("param-not-covered:%s" % culprits[0], "parameter of Top#mm is reported as %r, the call sites pass %s" % (
            diag.get(info["arg_probe"], [])[:1], sorted(want))))
    for i, s in enumerate(p["sites"]):
        got = MB.names_of(diag.get(info["result_probe"][i]))
        if got != want:
            bad.append(("result-differs:%s" % shape(p, i), "result of the call through %s (%s) is reported as %r, the model says %s" % (
                s["via"], s["from"], diag.get(info["result_probe"][i], [])[:1], sorted(want))))
    sig = [MB.parse_signature(m) for m in hints.get(info["def_row"], []) if m.startswith("(")]
    if sig and sig[0] is not None:
        params, ret = sig[0]
        if len(params) != 1 or (params[0] != "untyped" and not (params[0] is not None and want <= params[0])):
            missing = want - (params[0] if isinstance(params[0], set) else set()) if params else want
            culprits = sorted({shape(p, i) for i, s in enumerate(p["sites"]) if s["c"] in missing}) or ["?"]
            bad.append(("signature-param-not-covered:%s" % culprits[0], "signature hint %r does not cover %s" % (
                hints[info["def_row"]][:1], sorted(want))))
    return bad


def judge_nav(p, info, out, parse_nav):
    """C24: --llm-nav --target=mm lists one caller entry per site (enclosing method, row)"""
    nav = parse_nav(out)
    bad = []
    if not nav["found"]:
        if all(s["via"] != "Top" for s in p["sites"]):
            # every call goes through an inheriting class: ti files such calls under the receiver's class, so Top#mm has none
            return [("Dev_CallThroughSubclassNotAttributed", "no entry for mm: all %d call sites use receivers of inheriting classes" % len(p["sites"]))]
        return [("target-not-listed:paths", "no entry for mm")]
    got = collections.Counter((meth, row) for meth, cls, f, row in nav["callers"])
    want = collections.Counter((info["site_method"][i], info["site_row"][i]) for i in range(len(p["sites"])))
    idx = {(info["site_method"][i], info["site_row"][i]): i for i in range(len(p["sites"]))}
    for k in set(got) | set(want):
        if got[k] != want[k]:
            kind = "missing" if got[k] < want[k] else ("duplicated" if k in want else "spurious")
            sh = shape(p, idx[k]) if k in idx else "unknown-site"
            key = "caller-%s:%s" % (kind, sh)
            if kind == "missing" and k in idx and p["sites"][idx[k]]["via"] != "Top":
                key = "Dev_CallThroughSubclassNotAttributed"
            bad.append((key, "call site %s row %d (receiver class %s): listed %d times, %d expected" % (
                k[0], k[1], p["sites"][idx[k]]["via"] if k in idx else "?", got[k], want[k])))
    direct = sum(1 for s in p["sites"] if s["via"] == "Top")
    if nav["total"] != len(p["sites"]) and not bad:
        bad.append(("total-callers:paths", "total callers %s, %d call sites" % (nav["total"], len(p["sites"]))))
    return bad
