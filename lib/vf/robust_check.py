"""C01 / C02: one execution plan, two verdicts.

C01 clauses on each run: exit status 0, no Go panic / fatal error, every printed line is a
diagnostic or -i hint naming the target.   C02 clause: the run finishes (no `timeout`,
deterministically: no more than EOF_BUDGET reads past the end of input, confirmed black-box).
"""
import json
import os

from . import common as C
from . import robust as R

EOF_BUDGET = 10000


def plan(tier, work, stats, rng):
    """-> list of (tag, text)"""
    inputs = []
    if tier == "quick":
        seqs = R.proggen(work, "all", stats, maxlen=2)
        gram = R.proggen(work, "grammar", stats, stmts=1, depth=1, mut=1)
        gram2 = R.proggen(work, "grammar", stats, stmts=2, depth=1, mut=1)
        gram += rng.sample(gram2, min(4000, len(gram2)))
        nsim, ksim, nfiles = 300, 2000, 25
    else:
        seqs = R.proggen(work, "all", stats, maxlen=3)
        gram = R.proggen(work, "grammar", stats, stmts=2, depth=2, mut=1)
        nsim, ksim, nfiles = 6000, 40000, 585
    for t in seqs:
        for v in (0, 1):
            inputs.append(("all/%d" % v, R.render(t, v)))
    # lexical openers: every sequence over tokens that OPEN a literal / comment / heredoc / regexp (the file may end inside)
    for t in R.proggen(work, "all", stats, maxlen=3, tokens=R.TOKENS_OPENERS):
        for v in (0, 1):
            inputs.append(("openers/%d" % v, R.render(t, v)))
    # call sites: every argument list (positional / splat / keyword / double splat) against 7 parameter lists
    for i, t in enumerate(R.proggen(work, "calls", stats, maxlen=3 if tier == "quick" else 4)):
        inputs.append(("calls", R.render(t, 2)))
        if i % 4 == 0:
            inputs.append(("calls/compact", R.render(t, 1)))
    for i, t in enumerate(gram):
        inputs.append(("gram/%d" % (i % 3), R.render(t, i % 3)))
    # deeper programs with two mutations by seeded simulation
    sim = R.proggen(work, "grammar", stats, stmts=5, depth=3, mut=2,
                    simulate="num=%d" % nsim, extra=["-depth", "16", "-seed", str(C.tier_seed(tier))])
    sim = [t for t in sim if len(t) > 8]
    for i, t in enumerate(rng.sample(sim, min(ksim, len(sim)))):
        inputs.append(("sim/%d" % (i % 3), R.render(t, i % 3)))
    for tag, text in R.corpus_prefixes(rng, nfiles):
        inputs.append((tag, text))
    # dedupe texts
    seen = set()
    out = []
    for tag, text in inputs:
        if text not in seen:
            seen.add(text)
            out.append((tag, text))
    return out


def judge(prop, res, args):
    """-> list of (key, what) clause violations of `prop` for this real run."""
    bad = []
    if prop == "C02":
        if res.get("cls") == "stack-overflow":
            bad.append(("stack-overflow:" + short(res.get("site") or "?"), "unbounded recursion: never finishes"))
        elif res.hung:
            bad.append(("hang:" + short(res.hang_site()), "keeps reading after end of input / never finishes"))
        return bad
    # C01
    if res.get("cls") == "stack-overflow":
        bad.append(("stack-overflow:" + short(res.get("site") or "?"), "fatal error: stack overflow (exit status is not 0)"))
    elif res.hung:
        bad.append(("hang:" + short(res.hang_site()), "never finishes: the watchdog prints `timeout`, exit status 1"))
    elif res.crashed:
        bad.append(("crash:%s@%s" % (res.get("cls"), short(res.get("site") or "?")), "Go panic: %s" % res.get("panic")))
    elif not res.hung and res.get("exit") != 0:
        bad.append(("exit:%s" % res.get("exit"), "exit status %s" % res.get("exit")))
    if not res.crashed and not res.hung:
        prev = None
        for ln in R.parse_out(res.get("out") or ""):
            if ln["kind"] == "?" or (ln["kind"] in "dh" and ln["file"] != "t.rb"):
                key = badline_key(prev, ln)
                bad.append((key, "printed line outside the grammar: %r (previous line %r)" % (ln["msg"][:120], prev and prev["msg"][:80])))
                break
            prev = ln
            if ln["kind"] == "h" and "-i" not in args:
                bad.append(("badline:hint-without-i", "hint printed without -i"))
                break
    return bad


def badline_key(prev, ln):
    """A line outside the grammar right after a well-formed line is the tail of a message, hint
    or record that contains a raw newline (a newline token taken as a name); name it so."""
    if ln["msg"] == "%" or (prev is not None and prev["kind"] in "sxa"):
        return "badline:newline-token-used-as-name-in-record"
    if prev is not None and prev["kind"] in "dh":
        return "badline:newline-token-used-as-name"
    return "badline:" + line_shape(ln["msg"])


def short(site):
    return site.replace("ti/", "").replace("(*", "").replace(")", "")


def line_shape(msg):
    # a message that was cut by a raw newline shows up as a tail without prefix
    import re
    return re.sub(r"[A-Za-z0-9_]+", "w", msg)[:40]


def run(prop, tier, work):
    v = C.Verdict(prop, tier, work)
    rng = C.tier_rng(tier, 1)
    stats = dict(states=0, transitions=0, traces=0, trace_events=0)
    # the life-cycle model itself
    r = C.run_tlc(work, "MCRun", "Run_mc.cfg", workers=4, timeout=600)
    if not r.ok:
        raise C.HarnessError("Run.tla violates its own properties: %s" % r.violation)
    stats["states"] += r.distinct
    stats["transitions"] += r.generated

    inputs = plan(tier, work, stats, rng)
    modes = [[], ["-i"]]
    jobs = []
    for tag, text in inputs:
        for m in modes:
            jobs.append({"files": {"t.rb": text}, "args": ["t.rb"] + m, "eof_budget": EOF_BUDGET, "tag": tag})
    # traced sample for trace validation
    ntrace = 1500 if tier == "quick" else 12000
    for i, j in enumerate(jobs):
        j["idx"] = i
    for i in rng.sample(range(len(jobs)), min(ntrace, len(jobs))):
        jobs[i]["trace"] = True

    wr = C.Runner(work, "worker")
    try:
        results = wr.run_many(jobs)
    finally:
        wr.close()

    traces = []
    first = {}
    for job, res in zip(jobs, results):
        if res.get("skipped"):
            v.count("skipped_after_repeated_worker_timeouts")
            continue
        v.count("runs")
        if res.get("died") and not res.get("cls"):
            v.count("worker_died")
        if job.get("trace") and not res.get("died"):
            traces.append(R.trace_of("#%d" % jobs.index(job) if False else "#%d|%s|%s" % (job["idx"], job["tag"], " ".join(job["args"])), res, 0,
                                     {"h"} if "-i" in job["args"] else set()))
        for key, what in judge(prop, res, job["args"]):
            v.count("real_clause_violations")
            if key not in first or len(job["files"]["t.rb"]) < len(first[key][0]["files"]["t.rb"]):
                first[key] = (job, res, what)
    v.count("distinct_inputs", len(inputs))

    # trace validation of the sampled runs against Run.tla
    bad = R.validate_traces(work, traces, stats, EOF_BUDGET)
    badruns = {}
    for pos, rid, reason in bad:
        badruns.setdefault(rid, reason)
    v.count("traces_rejected", len(badruns))
    selftests = R.selftest_trace_binding(work, traces, stats) if tier == "thorough" or True else []

    # black-box confirmation of one (shortest) example per key; verdicts only from that
    confirmed = 0
    for key, (job, res, what) in sorted(first.items()):
        cj = {"files": job["files"], "args": job["args"]}
        reruns = C.confirm_alone(work, cj, runs=2)
        ok = all(any(k == key or same_family(k, key) for k, _ in judge_blackbox(prop, rr, job["args"])) for rr in reruns)
        if not ok:
            v.count("unconfirmed_in_blackbox")
            v.notes.append("worker-only outcome %s on %r (not reproduced black-box: ignored)" % (key, job["files"]["t.rb"][:60]))
            continue
        confirmed += 1
        text = job["files"]["t.rb"]
        v.fail(key, "input %r args %s: %s" % (text[:80], job["args"][1:], what), C.job_files_for_replay(cj),
               detail={"worker": {k: res.get(k) for k in ("exit", "panic", "cls", "site", "evalsite", "lexsite", "eof_reads")},
                       "blackbox": [{"exit": rr.get("exit"), "out": (rr.get("out") or "")[:300], "stderr": (rr.get("stderr") or "")[:600]} for rr in reruns]})
    # a rejected trace whose run showed no clause violation is a life-cycle violation of its own
    if prop == "C01":
        for rid, reason in sorted(badruns.items())[:5]:
            if reason in ("run ended in a panic", "run never finished (budget / watchdog)", "exit status is not 0",
                          "output line outside the grammar of this mode or naming another file",
                          "previous run never reached exit 0"):
                continue  # already judged above on the same run
            j = jobs[int(rid[1:].split("|")[0])]
            v.fail("lifecycle:" + reason, "run %s (input %r) is not a behaviour of Run.tla: %s" % (rid, j["files"]["t.rb"][:80], reason),
                   C.job_files_for_replay({"files": j["files"], "args": j["args"]}))

    # differential guard: a sample of conforming worker results must equal the black-box binary
    drift = differential_guard(work, jobs, results, rng, 120 if tier == "quick" else 400)
    if drift:
        raise C.HarnessError("in-process worker and black-box binary disagree on %d of the sampled conforming runs, e.g. %r" % (len(drift), drift[0]))

    for j, r_ in list(zip(jobs, results))[:3]:
        v.sample({"source": j["tag"], "text": j["files"]["t.rb"][:80], "args": j["args"], "exit": r_.get("exit"),
                  "out": (r_.get("out") or "")[:120]})
    cov = {
        "states": stats["states"], "transitions": stats["transitions"],
        "traces_validated_against_impl": stats["traces"], "trace_events": stats["trace_events"],
        "real_runs": len(jobs), "distinct_inputs": len(inputs), "blackbox_confirmations": confirmed,
        "binding_selftests": selftests, "notes": v.notes[:10],
        "rule": "inputs = states of spec/ProgGen.tla (all token sequences up to the bound; grammar programs with "
                "mutations; seeded simulation for deeper mutants) rendered two ways + every line prefix of corpus "
                "files; each run with and without -i",
    }
    return v.finish("model_checking", cov, assumptions=[
        "a run that makes more than %d reads past end of input never finishes (corpus maximum: 4)" % EOF_BUDGET,
        "worker results are believed only after black-box confirmation; %d conforming results re-run black-box" % (120 if tier == "quick" else 400)])


def same_family(k1, k2):
    """black-box and worker name the same failure slightly differently: black-box has no site for a
    hang, and unbounded recursion shows black-box as `timeout` (the watchdog fires first)."""
    f1, f2 = k1.split(":")[0], k2.split(":")[0]
    return f1 in ("hang", "stack-overflow") and f2 in ("hang", "stack-overflow")


def judge_blackbox(prop, res, args):
    return judge(prop, res, args)


def differential_guard(work, jobs, results, rng, n):
    idx = [i for i, r in enumerate(results) if not r.hung and not r.crashed and not r.get("died") and not r.get("skipped")]
    pick = rng.sample(idx, min(n, len(idx)))
    bb = C.Runner(work, "blackbox")
    rs = bb.run_many([{"files": jobs[i]["files"], "args": jobs[i]["args"]} for i in pick])
    diffs = []
    for i, r in zip(pick, rs):
        if r.get("timeout"):
            # a loaded machine can trip the 500 ms watchdog; re-run alone
            r = C.confirm_alone(work, {"files": jobs[i]["files"], "args": jobs[i]["args"]}, runs=1)[0]
        a, b = (r.get("out") or ""), (results[i].get("out") or "")
        if "--define" in jobs[i]["args"]:
            # --define prints a set of records straight from map iteration: compare as multisets
            a, b = "\n".join(sorted(a.split("\n"))), "\n".join(sorted(b.split("\n")))
        if a != b or r.get("exit") != results[i].get("exit"):
            diffs.append((jobs[i]["files"]["t.rb"][:80], jobs[i]["args"], (r.get("out") or "")[:100], (results[i].get("out") or "")[:100]))
    return diffs


def replay(prop, work, path):
    inp = os.path.join(path, "input")
    args = open(os.path.join(inp, "ARGS")).read().split()
    files = {n: open(os.path.join(inp, n), "rb").read() for n in os.listdir(inp) if n.endswith(".rb")}
    rr = C.confirm_alone(work, {"files": files, "args": args}, runs=1)[0]
    bad = judge_blackbox(prop, rr, args)
    print("exit=%s out=%r" % (rr.get("exit"), (rr.get("out") or "")[:300]))
    for k, w in bad:
        print("VIOLATION property=%s replay=%s" % (prop, path))
        print("  key: %s" % k)
    return 1 if bad else 0
