"""C08 - see binder_check.py (spec/Binder.tla cases replayed into the real binary)."""
from . import binder_check


def run(tier, work):
    return binder_check.run("C08", tier, work)


def replay(work, path):
    return binder_check.replay("C08", work, path)
