"""C04 - editor query modes (--suggest / --hover / --define with --row=N) never crash or hang,
whatever row is asked about, and print only well-formed records.

Inputs: corpus programs, their line prefixes, ProgGen programs and programs ending in `recv.`,
crossed with rows 0 .. lines+2 and the three modes.  Each run goes through the real code
(in-process worker, failures confirmed with the black-box binary); a sample of the runs'
event traces is validated against spec/Run.tla with the record kinds of the mode allowed.
"""
import os

from . import common as C
from . import robust as R
from . import robust_check as RC

MODES = ["--suggest", "--hover", "--define"]
RECEIVERS = ["1", "\"s\"", "''", "\"\"", "[]", "{}", "[1]", "{a: 1}", "x", "Foo", "Foo.new", "self", "nil", "1.0", ":a", "(1..2)", "K", "@a", "x.y"]


def rows_for(text, tier, rng):
    n = text.count("\n") + 1
    if tier == "thorough":
        return list(range(0, n + 3))
    rows = {0, 1, max(1, n // 2), n, n + 1, n + 2}
    # a blank / comment-only row if there is one
    for i, line in enumerate(text.split("\n")):
        if line.strip() == "" or line.strip().startswith("#"):
            rows.add(i + 1)
            break
    return sorted(rows)


def judge(res, args):
    bad = []
    if res.get("cls") == "stack-overflow":
        bad.append(("stack-overflow:" + RC.short(res.get("site") or "?"), "fatal error: stack overflow"))
    elif res.hung:
        bad.append(("hang:" + RC.short(res.hang_site()), "never finishes (`timeout`, exit 1)"))
    elif res.crashed:
        bad.append(("crash:%s@%s" % (res.get("cls"), RC.short(res.get("site") or "?")), "Go panic: %s" % res.get("panic")))
    elif res.get("exit") != 0:
        bad.append(("exit:%s" % res.get("exit"), "exit status %s" % res.get("exit")))
    else:
        prev = None
        for ln in R.parse_out(res.get("out") or ""):
            if ln["kind"] == "?" or (ln["kind"] in "dh" and ln["file"] != "t.rb"):
                key = RC.badline_key(prev, ln)
                bad.append((key, "printed line is no record and no diagnostic: %r" % ln["msg"][:120]))
                break
            prev = ln
    return bad


def run(tier, work):
    v = C.Verdict("C04", tier, work)
    rng = C.tier_rng(tier, 4)
    stats = dict(states=0, transitions=0, traces=0, trace_events=0)
    r = C.run_tlc(work, "MCRun", "Run_mc.cfg", workers=4, timeout=600)
    if not r.ok:
        raise C.HarnessError("Run.tla violates its own properties: %s" % r.violation)
    stats["states"] += r.distinct
    stats["transitions"] += r.generated

    texts = []
    files = C.corpus_files()
    rng.shuffle(files)
    nfull = 120 if tier == "quick" else 585
    for f in files[:nfull]:
        texts.append(("corpus:" + f, open(os.path.join(C.CORPUS, f)).read()))
    npref = 12 if tier == "quick" else 100
    for tag, text in R.corpus_prefixes(rng, npref):
        texts.append((tag, text))
    gram = R.proggen(work, "grammar", stats, stmts=1, depth=1, mut=1)
    for i, t in enumerate(rng.sample(gram, min(600 if tier == "quick" else 3000, len(gram)))):
        texts.append(("gram", R.render(t, i % 2)))
    for recv in RECEIVERS:
        for pre in ("", "x = 1\n", "class Foo\n  def m(a)\n    a\n  end\nend\nx = Foo.new\n"):
            for post in ("", "\n", "\ny = 2\n"):
                texts.append(("recv", pre + recv + "." + post))
                texts.append(("recv", pre + "y = " + recv + "." + post))
    # values an editor row can end on, alone and behind an assignment; class graphs with cycles
    for val in ("''", "\"\"", "[]", "{}", "nil", ":a", "1.5", "self", "K", "Foo"):
        texts.append(("value", "buf = %s\n%s\nbuf\n" % (val, val)))
        texts.append(("value", "d = {k: %s}\nd[:k]\n" % val))
    texts.append(("cycle", "class A < B\n  def f(x)\n    x\n  end\nend\nclass B < A\nend\na = A.new\na.\nA.\n"))
    texts.append(("cycle", "module M\n  include M\n  def g\n  end\nend\nclass C\n  include M\nend\nC.new.\n"))
    jobs = []
    seen = set()
    for tag, text in texts:
        for row in rows_for(text, tier, rng):
            for m in MODES:
                k = (text, row, m)
                if k in seen:
                    continue
                seen.add(k)
                jobs.append({"files": {"t.rb": text}, "args": ["t.rb", m, "--row=%d" % row],
                             "eof_budget": RC.EOF_BUDGET, "tag": tag})
    if tier == "quick" and len(jobs) > 26000:
        keep = [j for j in jobs if j["tag"] in ("cycle", "recv", "value")]      # the hand-picked editor situations always run
        rest = [j for j in jobs if j["tag"] not in ("cycle", "recv", "value")]
        jobs = keep + rng.sample(rest, max(0, 26000 - len(keep)))
    for i, j in enumerate(jobs):
        j["idx"] = i
    for i in rng.sample(range(len(jobs)), min(1000 if tier == "quick" else 8000, len(jobs))):
        jobs[i]["trace"] = True

    wr = C.Runner(work, "worker")
    try:
        results = wr.run_many(jobs)
    finally:
        wr.close()

    traces, first = [], {}
    for job, res in zip(jobs, results):
        if res.get("skipped"):
            v.count("skipped_after_repeated_worker_timeouts")
            continue
        v.count("runs")
        if job.get("trace") and not res.get("died"):
            traces.append(R.trace_of("#%d|%s|%s" % (job["idx"], job["tag"], " ".join(job["args"])), res, 0, {"s", "x", "a"}))
        for key, what in judge(res, job["args"]):
            v.count("real_clause_violations")
            if key not in first or len(job["files"]["t.rb"]) < len(first[key][0]["files"]["t.rb"]):
                first[key] = (job, res, what)
    bad = R.validate_traces(work, traces, stats, RC.EOF_BUDGET)
    badruns = {}
    for pos, rid, reason in bad:
        badruns.setdefault(rid, reason)
    v.count("traces_rejected", len(badruns))

    confirmed = 0
    for key, (job, res, what) in sorted(first.items()):
        cj = {"files": job["files"], "args": job["args"]}
        reruns = C.confirm_alone(work, cj, runs=2)
        ok = all(any(k == key or RC.same_family(k, key) for k, _ in judge(rr, job["args"])) for rr in reruns)
        if not ok:
            v.count("unconfirmed_in_blackbox")
            v.notes.append("worker-only outcome %s (not reproduced black-box: ignored)" % key)
            continue
        confirmed += 1
        v.fail(key, "input %r args %s: %s" % (job["files"]["t.rb"][-80:], job["args"][1:], what),
               C.job_files_for_replay(cj),
               detail={"blackbox": [{"exit": rr.get("exit"), "out": (rr.get("out") or "")[:300],
                                     "stderr": (rr.get("stderr") or "")[:600]} for rr in reruns]})
    for rid, reason in sorted(badruns.items())[:5]:
        if reason in ("run ended in a panic", "run never finished (budget / watchdog)", "exit status is not 0",
                      "output line outside the grammar of this mode or naming another file",
                      "previous run never reached exit 0"):
            continue
        j = jobs[int(rid[1:].split("|")[0])]
        v.fail("lifecycle:" + reason, "run %s (input %r) is not a behaviour of Run.tla: %s" % (rid, j["files"]["t.rb"][-80:], reason),
               C.job_files_for_replay({"files": j["files"], "args": j["args"]}))

    drift = RC.differential_guard(work, jobs, results, rng, 120 if tier == "quick" else 400)
    if drift:
        raise C.HarnessError("worker and black-box binary disagree on %d sampled conforming runs, e.g. %r" % (len(drift), drift[0]))
    for j, r_ in list(zip(jobs, results))[:3]:
        v.sample({"source": j["tag"], "text_tail": j["files"]["t.rb"][-60:], "args": j["args"], "exit": r_.get("exit"),
                  "out": (r_.get("out") or "")[:120]})
    cov = {
        "states": stats["states"], "transitions": stats["transitions"],
        "traces_validated_against_impl": stats["traces"], "trace_events": stats["trace_events"],
        "real_runs": len(jobs), "distinct_programs": len(texts), "blackbox_confirmations": confirmed,
        "notes": v.notes[:10],
        "rule": "corpus programs, corpus line prefixes, ProgGen programs with one mutation and programs ending in "
                "`recv.`, crossed with rows (0, 1, middle, blank/comment, last, last+1, last+2; every row in the "
                "thorough tier) and the modes --suggest/--hover/--define",
    }
    return v.finish("model_checking", cov, assumptions=[
        "a run that makes more than %d reads past end of input never finishes" % RC.EOF_BUDGET,
        "worker results are believed only after black-box confirmation"])


def replay(work, path):
    inp = os.path.join(path, "input")
    args = open(os.path.join(inp, "ARGS")).read().split()
    files = {n: open(os.path.join(inp, n), "rb").read() for n in os.listdir(inp) if n.endswith(".rb")}
    rr = C.confirm_alone(work, {"files": files, "args": args}, runs=1)[0]
    bad = judge(rr, args)
    print("exit=%s out=%r" % (rr.get("exit"), (rr.get("out") or "")[:300]))
    for k, w in bad:
        print("VIOLATION property=C04 replay=%s" % path)
        print("  key: %s" % k)
    return 1 if bad else 0
