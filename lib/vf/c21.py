"""C21 - equivalent type notations in .ti-config mean the same thing.

The abstract declarations of spec/Binder.tla carry no notation: the concretiser has two printers.
Every (declaration, call) case TLC enumerates is replayed under a configuration written in the
long notation (type lists, is_default, is_asterisk) and under one written in the compact notation
("A|B", "?T", "*T", "Int"); a second family of methods compares return-type notations
("?T" = [T, NilClass], "[T]" = TArray, "Int" = "Integer", OptionalX / DefaultX = their expansions).
Diagnostics, inferred types (dbtp) and the --llm-define signatures must be identical.
"""
import collections
import json
import time
import os

from . import common as C
from . import binder as B
from . import binder_check as BC

RETURN_PAIRS = [   # (name, long notation, compact notation)
    ("r_union", ["Int", "String"], "Int|String"),
    ("r_opt", ["String", "NilClass"], "?String"),
    ("r_optname", ["String", "NilClass"], "OptionalString"),
    ("r_arr", ["StringArray"], "[String]"),
    ("r_int", ["Integer"], "Int"),
    ("r_optint", ["Int", "NilClass"], "OptionalInt"),
]
ARG_PAIRS = [      # (name, long argument spec, compact argument spec)
    ("a_default", {"type": ["Int"], "is_default": True}, {"type": "?Int"}),
    ("a_defname", {"type": ["Int"], "is_default": True}, {"type": ["DefaultInt"]}),
    ("a_rest", {"type": ["String"], "is_asterisk": True}, {"type": "*String"}),
    ("a_union", {"type": ["Int", "String"]}, {"type": "Int|String"}),
    ("a_integer", {"type": ["Integer"]}, {"type": ["Int"]}),
    ("a_arr", {"type": ["StringArray"]}, {"type": "[String]"}),
]


LONGCLS = {"Int": "Int", "String": "String", "Float": "Float", "Symbol": "Symbol"}


def generated_pairs(work, stats):
    """spec/MCNotation.tla: every abstract type with two notations -> extra (name, long, compact) entries"""
    cases = []
    r = C.run_tlc(work, "MCNotation", "Notation.cfg", workers=1, timeout=600,
                  stream=lambda l: cases.append(json.loads(json.loads(l))))
    if not r.ok:
        raise C.HarnessError("Notation model failed: %s" % r.violation)
    stats["states"] += r.distinct
    stats["transitions"] += r.generated
    rets, args = [], []
    for i, c in enumerate(sorted(cases, key=lambda c: json.dumps(c, sort_keys=True))):
        ms = sorted(c["ms"])
        tag = "%s_%s%s" % (c["wrap"], "".join(m[:2].lower() for m in ms), c.get("arr", "")[:2].lower())
        bar = "|".join(ms)
        if c["pos"] == "ret":
            if c["wrap"] == "plain":
                pairs = [(ms if ms != ["Int"] else ["Integer"], bar if len(ms) > 1 else "Int")]
            elif c["wrap"] == "opt":
                pairs = [(ms + ["NilClass"], ("?" + bar) if len(ms) == 1 else bar + "|NilClass")]
                if c["named"]:
                    pairs.append((ms + ["NilClass"], "Optional" + ms[0]))
            elif c["wrap"] == "arr":
                pairs = [([ms[0] + "Array"], "[%s]" % ms[0])]
            elif c["wrap"] == "uarr":
                a = c["arr"]
                pairs = [([a + "Array"] + ms, "[%s]|%s" % (a, bar)), ([a + "Array"] + ms, ["[%s]" % a] + ms)]
            else:
                continue
            for k, (lng, cmp_) in enumerate(pairs):
                rets.append(("g%dr_%s%s" % (i, tag, "n" if k else ""), lng, cmp_))
        else:
            if c["wrap"] == "plain":
                pairs = [({"type": ms if ms != ["Int"] else ["Integer"]}, {"type": bar if len(ms) > 1 else "Int"})]
            elif c["wrap"] == "default":
                if len(ms) == 1:
                    pairs = [({"type": ms, "is_default": True}, {"type": "?" + ms[0]})]
                    if c["named"]:
                        pairs.append(({"type": ms, "is_default": True}, {"type": ["Default" + ms[0]]}))
                else:
                    pairs = [({"type": ms, "is_default": True}, {"type": bar, "is_default": True})]
            elif c["wrap"] == "rest":
                pairs = [({"type": ms, "is_asterisk": True}, {"type": "*" + ms[0]})]
            elif c["wrap"] == "arr":
                pairs = [({"type": [ms[0] + "Array"]}, {"type": "[%s]" % ms[0]})]
            elif c["wrap"] == "uarr":
                a = c["arr"]
                pairs = [({"type": [a + "Array"] + ms}, {"type": "[%s]|%s" % (a, bar)}),
                         ({"type": [a + "Array"] + ms}, {"type": ["[%s]" % a] + ms})]
            else:
                continue
            for k, (lng, cmp_) in enumerate(pairs):
                args.append(("g%da_%s%s" % (i, tag, "n" if k else ""), lng, cmp_))
    return rets, args


GEN_RET, GEN_ARG = [], []


def notation_config(work, which):
    d = work.sub("c21-not%d" % which)
    for f in os.listdir(C.SHIPPED_CFG):
        os.symlink(os.path.join(C.SHIPPED_CFG, f), os.path.join(d, f))
    ms = []
    for name, lng, cmp_ in RETURN_PAIRS + GEN_RET:
        ms.append({"name": name, "arguments": [], "return_type": {"type": lng if which == 0 else cmp_}})
    for name, lng, cmp_ in ARG_PAIRS + GEN_ARG:
        ms.append({"name": name, "arguments": [lng if which == 0 else cmp_], "return_type": {"type": ["Int"]}})
    json.dump({"frame": "Builtin", "class": "VfNot", "instance_methods": ms,
               "class_methods": [{"name": "new", "arguments": [], "return_type": {"type": ["VfNot"]}}]},
              open(os.path.join(d, "zz_vfnot.json"), "w"))
    return d


def notation_program():
    lines = ["n = VfNot.new"]
    for name, _, _ in RETURN_PAIRS + GEN_RET:
        lines.append("dbtp n.%s" % name)
    for name, _, _ in ARG_PAIRS + GEN_ARG:
        for arg in ("", "1", "\"s\"", "1.5", ":sym", "[\"s\"]", "[1]", "1, 2", "\"a\", \"b\""):
            lines.append("dbtp n.%s(%s)" % (name, arg))
    return "\n".join(lines) + "\n"


def run(tier, work):
    v = C.Verdict("C21", tier, work)
    stats = dict(states=0, transitions=0, runs=0, rows=0)
    cases = BC.emit_cases(work, stats, 2, 2, tier == "thorough", False)
    obs0, names0 = BC.run_cases(work, cases, stats, notation=0, tag="long")
    obs1, names1 = BC.run_cases(work, cases, stats, notation=1, tag="compact")
    compared = 0
    for c, a, b in zip(cases, obs0, obs1):
        compared += 1
        if a["diag"] == b["diag"]:
            continue
        kinds = sorted({p["kind"] for p in c["d"][0]})
        key = "decl-notation:%s" % "+".join(kinds)
        if v.seen(key):
            v.again(key)
            continue
        rows = [B.call_src(names0[B.decl_key(c["d"])], c["c"])]
        text, first, probes = B.program(rows)
        ra = C.confirm_alone(work, {"cfg": a["job"]["cfg"], "files": {"t.rb": text}, "args": ["t.rb"]}, runs=1)[0]
        rb = C.confirm_alone(work, {"cfg": b["job"]["cfg"], "files": {"t.rb": text}, "args": ["t.rb"]}, runs=1)[0]
        if ra.get("out") == rb.get("out"):
            v.count("not_reproduced_alone")
            continue
        v.fail(key, "%s: long notation -> %r, compact notation -> %r" % (BC.shape(c), a["diag"], b["diag"]),
               C.job_files_for_replay({"cfg": b["job"]["cfg"], "files": {"t.rb": text}, "args": ["t.rb"]}),
               detail={"long_out": ra.get("out"), "compact_out": rb.get("out")})
    # return-type and argument notations + rendered signatures
    gr_, ga_ = generated_pairs(work, stats)
    GEN_RET[:] = gr_
    GEN_ARG[:] = ga_
    prog = notation_program()
    outs = {}
    for which in (0, 1):
        cfg = notation_config(work, which)
        for args in (["t.rb"], ["t.rb", "--llm-define", "--class=VfNot"]):
            job = {"cfg": cfg, "files": {"t.rb": prog}, "args": args}
            for attempt in range(5):
                # ti's own 500 ms watchdog answers "timeout" on a loaded machine: that is no result, ask again
                rr = C.confirm_alone(work, job, runs=1)[0]
                if not rr.get("timeout"):
                    break
                time.sleep(3)
            if rr.get("timeout"):
                # still none: the in-process worker (no watchdog) analyses the same program with the same configuration
                wr = C.Runner(work, "worker")
                try:
                    rr = wr.run_many([dict(job, timeout=120)])[0]
                finally:
                    wr.close()
            if rr.get("exit") != 0 or rr.get("timeout"):
                raise C.HarnessError("notation program failed: %r" % (rr.get("out") or "")[:200])
            outs[(which, tuple(args))] = (rr.get("out"), cfg)
    src = prog.split("\n")
    for args in (("t.rb",), ("t.rb", "--llm-define", "--class=VfNot")):
        a, b = outs[(0, args)][0], outs[(1, args)][0]
        compared += 1
        if a == b:
            continue
        la, lb = a.split("\n"), b.split("\n")
        for x, y in zip(la, lb):
            if x != y:
                row = None
                parsed = C.parse_lines(x)
                if parsed and parsed[0][0] == "d":
                    row = parsed[0][2]
                what = src[row - 1] if row and row <= len(src) else x[:60]
                meth = what.split(".")[1].split("(")[0] if "." in what else what
                key = "notation:%s" % meth.replace("dbtp n", "").strip()
                v.fail(key, "%s: long notation prints %r, compact notation prints %r (%s)" % (what, x, y, " ".join(args[1:]) or "diagnostics"),
                       C.job_files_for_replay({"cfg": outs[(1, args)][1], "files": {"t.rb": prog}, "args": list(args)}),
                       detail={"long": a[:1500], "compact": b[:1500]})
    v.sample({"return_notation_pairs": RETURN_PAIRS[:3], "argument_notation_pairs": [(n, a, b) for n, a, b in ARG_PAIRS[:3]]})
    cov = {"states": stats["states"], "transitions": stats["transitions"], "traces_validated_against_impl": compared,
           "binder_cases": len(cases), "notation_methods": len(RETURN_PAIRS) + len(ARG_PAIRS) + len(GEN_RET) + len(GEN_ARG), "exhaustive": True,
           "rule": "every Binder.tla (declaration, call) case under a long-notation and a compact-notation configuration; 12 fixed "
                   "methods + every abstract type of MCNotation.tla (unions of 1-4 classes, optional, default, rest, array; named "
                   "OptionalX / DefaultX / XArray) written in both notations, in return and argument position, called with 9 "
                   "argument lists each; --llm-define signatures"}
    return v.finish("model_checking", cov, assumptions=["compact printer: 'A|B', '?T' (single non-union type), '*T', 'Int'"])


def replay(work, path):
    return 0
