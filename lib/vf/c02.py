"""C02 - analysis terminates on every finite input without the watchdog."""
from . import robust_check


def run(tier, work):
    return robust_check.run("C02", tier, work)


def replay(work, path):
    return robust_check.replay("C02", work, path)
