"""C24 - the LLM navigator's call graph matches the source.

spec/Methods.tla gives, for every generated program, the call sites of every method: the
top-level sites (each in one of five syntactic positions: plain statement, if condition, while
condition, argument of an array literal, inside a block) and the sites in the bodies of other
methods.  `ti --llm-nav --target=<m>` must list exactly one caller entry per site, with the
site's row and the enclosing method (or `top level`), `total callers` must be the number of
sites, and every listed callee must be a call written in the method's body.
"""
import collections
import re

from . import common as C
from . import methods as M


def parse_nav(out):
    """-> {"callers": [(method, class, file, row)], "total": n, "callees": [method], "found": bool}"""
    res = {"callers": [], "total": None, "callees": [], "found": False, "total_callees": None}
    sec = None
    cur = None
    for line in out.split("\n"):
        if line.startswith("## "):
            res["found"] = True
        elif line.startswith("- callers"):
            sec = "callers"
        elif line.startswith("- callees"):
            sec = "callees"
        elif line.strip().startswith("- total callers:"):
            res["total"] = int(line.split(":")[1])
        elif line.strip().startswith("- total callees:"):
            res["total_callees"] = int(line.split(":")[1])
        elif line.startswith("  - method:"):
            cur = {"method": line.split(":", 1)[1].strip()}
            if sec == "callees":
                res["callees"].append(cur["method"])
        elif line.startswith("    - class:") and cur is not None:
            cur["class"] = line.split(":", 1)[1].strip()
        elif line.startswith("    - call point:") and cur is not None and sec == "callers":
            f, r = line.split(":", 1)[1].strip().rsplit(":", 1)
            res["callers"].append((cur["method"], cur.get("class"), f, int(r)))
    return res


def expected_callers(p, info, m):
    exp = []
    for i in p["callers"][m]["top"]:
        ctx = p["sites"][i - 1].get("ctx", "plain")
        exp.append(("top level", info["site_rows"][i - 1], ctx))
        if ctx == "twice":
            exp.append(("top level", info["site_rows"][i - 1], ctx))
    for n in p["callers"][m]["body"]:
        exp.append((n, info["body_call_row"][n], "body"))
    return exp


def judge(p, info, m, out):
    nav = parse_nav(out)
    exp = expected_callers(p, info, m)
    bad = []
    if not nav["found"]:
        bad.append(("target-not-listed", "no entry for %s" % m))
        return bad
    got = collections.Counter((meth, row) for meth, cls, f, row in nav["callers"])
    want = collections.Counter((meth, row) for meth, row, ctx in exp)
    ctx_of = {(meth, row): ctx for meth, row, ctx in exp}
    for k in set(got) | set(want):
        if got[k] != want[k]:
            ctx = ctx_of.get(k, "unknown-site")
            kind = "missing" if got[k] < want[k] else ("duplicated" if k in want else "spurious")
            key = "caller-%s:%s" % (kind, ctx)
            bad.append((key, "call site %s row %d (%s): listed %d times, %d expected" % (k[0], k[1], ctx, got[k], want[k])))
    if nav["total"] != len(exp) and not bad:
        bad.append(("total-callers", "total callers %s, %d call sites" % (nav["total"], len(exp))))
    body = p["body"][m]
    want_callees = [body["callee"]] if body["k"] == "call" else []
    for c in nav["callees"]:
        if c not in want_callees:
            bad.append(("callee-not-in-body", "callee %s listed, the body of %s calls %s" % (c, m, want_callees)))
    return bad


def run(tier, work):
    v = C.Verdict("C24", tier, work)
    rng = C.tier_rng(tier, 24)
    stats = dict(states=0, transitions=0, runs=0)
    ctxs = ("plain", "if-cond", "while-cond", "arg", "block", "twice")
    progs = M.emit(work, stats, 2, 2, ctxs)
    if tier == "quick":
        progs = rng.sample(progs, 700)
    else:
        progs = progs + rng.sample(M.emit(work, stats, 3, 2, ctxs), 8000)
    jobs, meta = [], []
    for p in progs:
        lines, info = M.render(p)
        for m in p["order"]:
            jobs.append({"files": {"t.rb": "\n".join(lines) + "\n"}, "args": ["t.rb", "--llm-nav", "--target=%s" % m]})
            meta.append((p, info, m))
    wr = C.Runner(work, "worker")
    try:
        results = wr.run_many(jobs)
    finally:
        wr.close()
    checked = 0
    for (p, info, m), job, res in zip(meta, jobs, results):
        if res.hung or res.crashed or res.get("exit") != 0:
            key = "crash-or-hang:%s@%s" % (res.get("cls"), res.get("site"))
            if not v.seen(key):
                v.fail(key, "llm-nav fails", C.job_files_for_replay(job))
            else:
                v.again(key)
            continue
        stats["runs"] += 1
        checked += 1
        for key, what in judge(p, info, m, res["out"]):
            if v.seen(key):
                v.again(key)
                continue
            rr = C.confirm_alone(work, job, runs=1)[0]
            if not any(k == key for k, _ in judge(p, info, m, rr.get("out") or "")):
                v.count("not_reproduced_blackbox")
                continue
            v.fail(key, "--target=%s: %s, in program %r" % (m, what, job["files"]["t.rb"]), C.job_files_for_replay(job),
                   detail={"out": rr.get("out")})
    # spec/MethodPaths.tla: Top#mm called through Top / Mid / Leaf instances, classes placed in namespaces, sites at the top
    # level, in a top-level method and in methods of classes in namespaces
    from . import methodpaths as MP
    pprogs = MP.emit(work, stats, 2)
    pprogs = rng.sample(pprogs, 1500 if tier == "quick" else 20000)
    pjobs, pmeta = [], []
    for p in pprogs:
        lines, info = MP.render(p)
        pjobs.append({"files": {"t.rb": "\n".join(lines) + "\n"}, "args": ["t.rb", "--llm-nav", "--target=mm"]})
        pmeta.append((p, info))
    wr = C.Runner(work, "worker")
    try:
        presults = wr.run_many(pjobs)
    finally:
        wr.close()
    for (p, info), job, res in zip(pmeta, pjobs, presults):
        if res.hung or res.crashed or res.get("exit") != 0:
            key = "crash-or-hang:%s@%s" % (res.get("cls"), res.get("site"))
            if not v.seen(key):
                v.fail(key, "llm-nav fails", C.job_files_for_replay(job))
            else:
                v.again(key)
            continue
        stats["runs"] += 1
        checked += 1
        for key, what in MP.judge_nav(p, info, res["out"], parse_nav):
            if v.seen(key):
                v.again(key)
                continue
            rr = C.confirm_alone(work, job, runs=1)[0]
            if not any(k == key for k, _ in MP.judge_nav(p, info, rr.get("out") or "", parse_nav)):
                v.count("not_reproduced_blackbox")
                continue
            v.fail(key, "--target=mm: %s, in program %r" % (what, job["files"]["t.rb"]), C.job_files_for_replay(job),
                   detail={"out": rr.get("out")})
    v.sample({"program": M.render(progs[0])[0], "callers": progs[0]["callers"]})
    cov = {"states": stats["states"], "transitions": stats["transitions"], "traces_validated_against_impl": stats["runs"],
           "targets_checked": checked, "programs": len(progs), "method_path_programs": len(pprogs),
           "rule": "Methods.tla programs with top-level call sites in five syntactic positions and calls between methods; "
                   "--llm-nav --target=<every method>: caller entries (enclosing method, row) compared as a multiset with the sites; "
                   "MethodPaths.tla programs: an inherited method called through instances of the defining / inheriting classes placed "
                   "in namespaces, from the top level, a top-level method and methods of classes in namespaces"}
    return v.finish("model_checking", cov, assumptions=["the row of a call site is the row of the call expression"])


def replay(work, path):
    return 0
