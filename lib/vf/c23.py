"""C23 - completion lists exactly the methods the receiver can answer.

Model: spec/Classes.tla resolution (own methods, included / extended modules, superclass chain)
gives, for every TLC-generated class graph and every class in it, which of the graph's method
names an instance (a class) receiver can answer.  For configured classes the harness reads the
.ti-config files itself (class, extends chain, instance / class methods).  Replay: a program
ending in `recv.` is completed with --suggest --row=<last>; the listed names must contain every
callable public method (incl. Object / Kernel for instance receivers) and none that only classes
outside the receiver's ancestry define.
"""
import collections
import json
import os

from . import common as C
from . import classes as K
from . import confsweep as S


def suggestions(out):
    names = []
    for line in out.split("\n"):
        if line.startswith("%") and ":::" in line:
            names.append(line[1:].split(":::")[0])
    return names


def load_config():
    classes = {}
    for f in sorted(os.listdir(C.SHIPPED_CFG)):
        try:
            d = json.load(open(os.path.join(C.SHIPPED_CFG, f)))
        except Exception:
            continue
        if d.get("frame") != "Builtin":
            continue
        c = classes.setdefault(d.get("class", ""), {"inst": set(), "static": set(), "extends": []})
        c["inst"] |= {m["name"] for m in d.get("instance_methods") or []}
        c["static"] |= {m["name"] for m in d.get("class_methods") or []}
        c["extends"] += [e for e in d.get("extends") or [] if "::" not in e]
    return classes


def ancestry(classes, c):
    seen, todo = [], [c]
    while todo:
        x = todo.pop()
        if x in seen or x not in classes:
            continue
        seen.append(x)
        todo += classes[x]["extends"]
    return seen


def run(tier, work):
    v = C.Verdict("C23", tier, work)
    rng = C.tier_rng(tier, 23)
    stats = dict(states=0, transitions=0, runs=0)
    cfg = load_config()
    object_names = cfg.get("", {"inst": set()})["inst"] | cfg.get("Object", {"inst": set()})["inst"]
    kernel_names = cfg.get("Kernel", {"inst": set()})["inst"] | cfg.get("Kernel", {"static": set()})["static"]
    jobs, meta = [], []
    # (a) configured classes, instance receivers
    for cls, lit in S.RECV.items():
        if cls not in cfg:
            continue
        anc = ancestry(cfg, cls)
        must = set().union(*[cfg[a]["inst"] for a in anc])
        others = set()
        for oc, od in cfg.items():
            if oc not in anc and oc not in ("", "Object", "Kernel"):
                others |= od["inst"] | od["static"]
        forbidden = others - must - object_names - kernel_names
        text = "r = %s\nr.\n" % lit
        jobs.append({"files": {"t.rb": text}, "args": ["t.rb", "--suggest", "--row=2"]})
        meta.append(("configured-instance:" + cls, must, forbidden, object_names, frozenset()))
        # the same receiver reached otherwise: through a constant, as a block parameter, as a literal, as a method's result
        forms = {"constant": ("VFK = %s\nVFK.\n" % lit, 2), "block-parameter": ("[%s].each do |vfv|\n  vfv.\nend\n" % lit, 2),
                 "literal": ("%s.\n" % lit, 1), "method-result": ("def vfm\n  %s\nend\nvfm.\n" % lit, 4),
                 "instance-variable": ("@vfi = %s\n@vfi.\n" % lit, 2)}
        for form, (ftext, row) in forms.items():
            jobs.append({"files": {"t.rb": ftext}, "args": ["t.rb", "--suggest", "--row=%d" % row]})
            meta.append(("configured-instance:%s/%s" % (cls, form), must, forbidden, object_names, frozenset()))
    # (b) TLC-generated user hierarchies
    graphs = rng.sample(K.emit(work, stats), 150 if tier == "quick" else 3000)
    user_names = {"foo", "bar", "baz", "mix"}
    from . import c16
    places = c16.choose_places(work, stats, graphs, rng)
    for gr, pl in [(gr, None) for gr in graphs] + list(zip(graphs, places)):
        dl, _ = K.render(gr, K.PLAIN, place=pl)
        g = gr["g"]
        kind_sfx = "-placed" if pl else ""
        for c in gr["shape"]:
            ar = gr["q"][c]["arity"]
            q = gr["q"][c]
            unrelated_only = {n for n in user_names
                              if any(d["name"] == n for d in g["defs"])
                              and all(d["owner"] not in related(g, gr["shape"], c) for d in g["defs"] if d["name"] == n)}
            must_i = {n for n in user_names if q["inst"][n]["k"] == "ok"}
            attrs_i = frozenset(n for n in user_names if q["inst"][n].get("attr"))
            text = "\n".join(dl + ["o = %s.new%s" % (K.path_of(c, K.PLAIN, pl), "(1)" if ar == 1 else ""), "o."]) + "\n"
            jobs.append({"files": {"t.rb": text}, "args": ["t.rb", "--suggest", "--row=%d" % (len(dl) + 2)]})
            meta.append(("user-instance" + kind_sfx, must_i, unrelated_only, object_names, attrs_i))
            must_s = {n for n in ("foo", "mix") if q["static"][n]["k"] == "ok"}
            text = "\n".join(dl + ["%s." % K.path_of(c, K.PLAIN, pl)]) + "\n"
            jobs.append({"files": {"t.rb": text}, "args": ["t.rb", "--suggest", "--row=%d" % (len(dl) + 1)]})
            meta.append(("user-class" + kind_sfx, must_s, unrelated_only, set(), frozenset()))
    wr = C.Runner(work, "worker")
    try:
        results = wr.run_many(jobs)
    finally:
        wr.close()
    checked = 0
    for (kind, must, forbidden, also, attrs), job, res in zip(meta, jobs, results):
        if res.hung or res.crashed or res.get("exit") != 0:
            key = "%s:crash-or-hang:%s@%s" % (kind.split(":")[0], res.get("cls"), res.get("site"))
            if not v.seen(key):
                v.fail(key, "--suggest fails", C.job_files_for_replay(job))
            else:
                v.again(key)
            continue
        stats["runs"] += 1
        for key, what in judge(kind, must, forbidden, also, res["out"], attrs):
            checked += 1
            if v.seen(key):
                v.again(key)
                continue
            rr = C.confirm_alone(work, job, runs=1)[0]
            if not any(k == key for k, _ in judge(kind, must, forbidden, also, rr.get("out") or "", attrs)):
                v.count("not_reproduced_blackbox")
                continue
            v.fail(key, "%s: %s; program ends %r" % (kind, what, job["files"]["t.rb"][-60:]), C.job_files_for_replay(job),
                   detail={"suggested": suggestions(rr.get("out") or "")[:80]})
    v.sample({"configured_classes": sorted(S.RECV), "user_graphs": len(graphs)})
    cov = {"states": stats["states"], "transitions": stats["transitions"], "traces_validated_against_impl": stats["runs"],
           "completions_checked": len(jobs),
           "rule": "instance receivers of 8 configured classes; instance and class receivers of every class of TLC-generated user "
                   "hierarchies; suggested names must include every callable public method and no name that only unrelated classes define"}
    return v.finish("model_checking", cov, assumptions=[
        "private / protected methods of the receiver's own hierarchy are not judged (the property excludes only those of other classes)",
        "for instance receivers the Object and Kernel methods of the configuration must be listed as well"])


def related(g, shape, c):
    """c, its ancestors and descendants, and every module one of those includes or extends"""
    def chain(x):
        out = []
        while x and x not in out:
            out.append(x)
            x = g["sup"].get(x, "")
        return out
    rel = set(chain(c)) | {x for x in shape if c in chain(x)}
    for x in list(rel):
        rel |= set(g["inc"].get(x, [])) | set(g["ext"].get(x, []))
    return rel


def judge(kind, must, forbidden, also, out, attrs=frozenset()):
    names = set(suggestions(out))
    bad = []
    group = kind.split(":")[0]
    missing = sorted((must | also) - names)
    if missing:
        src = "object-or-kernel" if not (must - names) else "own-or-inherited"
        if (must - names) and (must - names) <= attrs:
            src = "attribute-accessor"
        if src == "object-or-kernel":
            group = group.replace("-placed", "")      # one deviation, whatever the namespace
            kind = kind.split("/")[0]                 # ... and however the receiver is reached
        bad.append(("%s:missing:%s" % (kind if group.startswith("configured") else group, src),
                    "not suggested: %s" % missing[:8]))
    extra = sorted(names & forbidden)
    if extra:
        bad.append(("%s:foreign-method-suggested" % (kind if group.startswith("configured") else group), "suggested although only unrelated classes define them: %s" % extra[:8]))
    return bad


def replay(work, path):
    return 0
