"""Pool of programs for the relational properties (C05, C06, C11, C12, C13, C18, C19, C20):
the 585 corpus programs plus programs generated from the TLA+ models (Core / Narrow / Blocks
behaviours rendered with probes), with their statement boundaries."""
import json
import os
import re

from . import common as C
from . import core as K


def corpus(rng=None, n=None):
    files = C.corpus_files()
    if rng is not None:
        rng.shuffle(files)
    if n:
        files = files[:n]
    return [("corpus:" + f, open(os.path.join(C.CORPUS, f)).read()) for f in files]


def generated(work, stats, rng, n_core=40, n_narrow=20, n_blocks=20, group=4):
    """Programs rendered from TLC behaviours (probes included so that they produce output).
    Every line of these programs is one statement; every line boundary is a statement boundary."""
    from . import c09, c10, c17
    out = []
    progs = c09.emit(work, stats, 3, False, False)
    rng.shuffle(progs)
    for g in range(n_core):
        lines = []
        for k, p in enumerate(progs[g * group:(g + 1) * group]):
            pl, _ = K.render_program(p, "_%d" % k)
            lines += pl
        out.append(("gen:core", "\n".join(lines) + "\n", "corecfg"))
    nprogs = c10.emit(work, stats, dict(MAXDEPTH=2, MAXIFS=2, ELSIF="FALSE", UNLESS="FALSE", STMT="FALSE", RICH="FALSE"))
    nprogs += c10.emit(work, stats, dict(MAXDEPTH=1, MAXIFS=1, ELSIF="TRUE", UNLESS="TRUE", STMT="TRUE", RICH="FALSE"))
    rng.shuffle(nprogs)
    for p in nprogs[:n_narrow]:
        out.append(("gen:narrow", "\n".join(c10.render(p)[0]) + "\n", "narrowcfg"))
    bprogs = c17.emit(work, stats, dict(MAXVARS=2, MAXDEPTH=1, MAXBLOCKS=1))
    bprogs += c17.emit(work, stats, dict(MAXVARS=1, MAXDEPTH=2, MAXBLOCKS=2))
    rng.shuffle(bprogs)
    for p in bprogs[:n_blocks]:
        out.append(("gen:blocks", "\n".join(c17.render(p)[0]) + "\n", "corecfg"))
    return out


def gen_configs(work):
    """config directories the generated programs need, by name"""
    from . import c10
    return {"corecfg": K.build_config(work, "pool-corecfg"), "narrowcfg": c10.config(work)}


# ------------------------------------------------------------------ statement boundaries

_OPEN = {"(": ")", "[": "]", "{": "}"}
_CONT_END = re.compile(r"(,|\.|\\|\+|-|\*|/|=|&&|\|\||\||<<|\?|:|&|<|>|\band\b|\bor\b|\bnot\b|\bthen\b)\s*$")
_HEREDOC = re.compile(r"<<[~-]?(['\"]?)([A-Za-z_][A-Za-z0-9_]*)\1")


def strip_strings(line):
    """remove string literals and comments (conservatively) for bracket counting"""
    out, i, n = [], 0, len(line)
    while i < n:
        c = line[i]
        if c == "#":
            break
        if c in "\"'`":
            j = i + 1
            while j < n and line[j] != c:
                j += 2 if line[j] == "\\" else 1
            if j >= n:
                return None            # unterminated on this line: multi-line literal
            out.append("S")
            i = j + 1
            continue
        out.append(c)
        i += 1
    return "".join(out)


def boundaries(text):
    """1-based rows r such that a line may be inserted BEFORE row r without changing the meaning
    (r in 1..n+1).  Conservative: a boundary is dropped when in doubt."""
    lines = text.split("\n")
    if lines and lines[-1] == "":
        lines = lines[:-1]
    ok = []
    depth = 0
    heredoc = None
    in_begin = False
    unsafe_until_clean = False
    prev_code = ""
    for idx, line in enumerate(lines):
        row = idx + 1
        safe_here = depth == 0 and heredoc is None and not in_begin and not unsafe_until_clean
        s = line.strip()
        if heredoc is not None:
            if s == heredoc:
                heredoc = None
            continue
        if in_begin:
            if s.startswith("=end"):
                in_begin = False
            continue
        if s.startswith("=begin"):
            in_begin = True
            continue
        code = strip_strings(line)
        if code is None:
            unsafe_until_clean = True       # a literal continues on the next line: stop judging
            continue
        if unsafe_until_clean:
            continue
        if safe_here and not _CONT_END.search(prev_code) and not code.strip().startswith((".", "&.", "?", ":")):
            ok.append(row)
        m = _HEREDOC.search(code)
        if m:
            heredoc = m.group(2)
        for ch in code:
            if ch in _OPEN:
                depth += 1
            elif ch in ")]}":
                depth = max(0, depth - 1)
        if code.strip():
            prev_code = code
    if depth == 0 and heredoc is None and not in_begin and not unsafe_until_clean and not _CONT_END.search(prev_code):
        ok.append(len(lines) + 1)
    return ok


_STR = re.compile(r"\"([A-Za-z0-9 _]+)\"")


def string_literals(text):
    """(row, start, end) of simple double-quoted literals that are safe to widen"""
    out = []
    for idx, line in enumerate(text.split("\n")):
        code = strip_strings(line)
        if code is None or "#" in line or "<<" in line or "%" in line:
            continue
        for m in _STR.finditer(line):
            before, after = line[:m.start()].rstrip(), line[m.end():].lstrip()
            if before.endswith("[") or after.startswith(("=>", "]")):
                continue          # a literal hash key / index: its content is part of the meaning (literal-key lookup)
            out.append((idx + 1, m.start(), m.end()))
    return out


def shift_rows(parsed, at_row, by):
    """rows >= at_row move by `by`"""
    return [(k, f, (r + by if r >= at_row else r), m) for (k, f, r, m) in parsed]
