"""Concretiser for spec/Seams.tla (C11): prev ; [fragment ending in fragEnd] ; next, over disjoint names."""
import json

from . import common as C

PREAMBLE = ["hq_items = [1, 2]", "hq_u = true ? [1] : {a: 1}", "hq_y = 1", "hq_s = \"a-b\""]
FRAG_PREAMBLE = ["vq_s = \"c-d\"", "vq_y = 2"]


def end_lines(kind, pfx):
    s, y, p = pfx + "s", pfx + "y", pfx + "p"
    return {
        "assign-lit": ["%s = \"s\"" % p],
        "assign-call": ["%s = %s.upcase" % (p, s)],
        "call-noblock": ["%s.upcase" % s],
        "call-block-params": ["%s.each_char { |%sc| %sc }" % (s, pfx, pfx)],
        "times-block": ["3.times { |%sk| %sk }" % (pfx, pfx)],
        "if-end": ["if %s.nil?" % y, "  %s = 1" % p, "end"],
        "array-lit": ["[1, 2]"],
        "hash-lit": ["%s = {a: 1}" % p],
        "string-lit": ["\"str\""],
        "op-assign": ["%s += 1" % y],
        "print-call": ["puts %s" % y],
        "method-chain": ["%s.upcase.downcase" % s],
        "failing-op-call": ["%s = 2 * \"x\"" % p],            # an operator call that ends with a diagnostic
        "not-call": ["!%s" % y],
        "while-modifier": ["%s += 1 while %s.nil?" % (y, y)],
        "none": [],
    }[kind]


def next_lines(kind):
    return {
        "probe-ident": ["dbtp hq_y"],
        "block-unknown-method": ["hq_items.each_slice(2) { |hq_pair| dbtp hq_pair }"],
        "block-union-receiver": ["hq_u.each { |hq_e| dbtp hq_e }"],
        "block-strategy-method": ["hq_items.push(3) { |hq_z| dbtp hq_z }"],
        "bracket-line": ["[3, 4].each { |hq_b| dbtp hq_b }"],
        "paren-line": ["(hq_y + 1).times { |hq_t| dbtp hq_t }"],
        "unary-minus-line": ["-hq_y.abs", "dbtp hq_y"],
        "string-line": ["\"lit\".each_char { |hq_c2| dbtp hq_c2 }"],
        "symbol-line": [":sym.to_s.each_char { |hq_c3| dbtp hq_c3 }"],
        "const-line": ["Array.new(2).each { |hq_c4| dbtp hq_c4 }"],
        "if-line": ["if hq_y.nil?", "  dbtp hq_y", "else", "  dbtp hq_y", "end"],
        "def-line": ["def hq_m(hq_a)", "  dbtp hq_a", "  hq_a", "end", "dbtp hq_m(1)"],
        "ternary-op-line": ["hq_t = hq_y.nil? ? 1 : \"a\" + \"b\"", "dbtp hq_t"],
        "arith-line": ["hq_r = 1 + 2 * 3.5", "dbtp hq_r"],
    }[kind]


def emit(work, stats, leaky_asis):
    cases = []
    r = C.run_tlc(work, "MCSeams", "Seams.cfg", workers=2, timeout=900,
                  stream=lambda l: cases.append(json.loads(json.loads(l))),
                  consts={"LEAKY": leaky_asis, "EMIT": "TRUE", "INVS": ""})
    if not r.ok:
        raise C.HarnessError("Seams model failed: %s" % r.violation)
    stats["states"] += r.distinct
    stats["transitions"] += r.generated
    # the intended analyser (nothing leaks) satisfies the seam property, the as-is one does not
    ok = C.run_tlc(work, "MCSeams", "Seams.cfg", workers=2, timeout=900, consts={"LEAKY": "{}", "EMIT": "FALSE", "INVS": "SeesNothing"})
    stats["states"] += ok.distinct
    stats["transitions"] += ok.generated
    if not ok.ok:
        raise C.HarnessError("Seams: the intended model violates SeesNothing: %s" % ok.violation)
    bad = C.run_tlc(work, "MCSeams", "Seams.cfg", workers=2, timeout=900, consts={"LEAKY": leaky_asis, "EMIT": "FALSE", "INVS": "SeesNothing"})
    if bad.ok:
        raise C.HarnessError("Seams self-test: the leaky model satisfies SeesNothing (vacuous)")
    return cases


def programs(case):
    """-> (base text, text with fragment, first fragment row, number of fragment rows)"""
    head = PREAMBLE + end_lines(case["prev"], "hq_")
    frag = FRAG_PREAMBLE + end_lines(case["fragEnd"], "vq_")
    tail = next_lines(case["next"]) + ["dbtp hq_y", "dbtp hq_s"]
    base = "\n".join(head + tail) + "\n"
    with_f = "\n".join(head + frag + tail) + "\n"
    return base, with_f, len(head) + 1, len(frag)
