"""Concretiser for spec/Classes.tla graphs (C16, C20, C22, C23, C27)."""
import json
import re

from . import common as C

LIT = {"Integer": "1", "String": "\"s\"", "Float": "1.5", "Symbol": ":s"}
PLAIN = {"K1": "Alpha", "K2": "Beta", "K3": "Gamma", "M1": "Mixer"}
# short names that the shipped configuration also declares, in other frames (ActiveRecord::Base, ...)
COLLIDE = {"K1": "Base", "K2": "Relation", "K3": "Table", "M1": "Mixer"}


def emit(work, stats, simulate=None, extra=None):
    graphs = []

    def feed(line):
        graphs.append(json.loads(json.loads(line)))
    r = C.run_tlc(work, "MCClasses", "Classes.cfg", workers=1, timeout=3000, stream=feed, heap="16g",
                  consts={"EMIT": "TRUE"}, simulate=simulate, extra=extra)
    if not r.ok:
        raise C.HarnessError("Classes model violates its own properties: %s" % r.violation)
    stats["states"] += max(r.distinct, len(graphs))
    stats["transitions"] += max(r.generated, len(graphs))
    return graphs


def placements(work, stats):
    """every way of putting the three classes and the module into the top level or one of two namespaces (TLC: MCPlacements)"""
    out = []
    r = C.run_tlc(work, "MCPlacements", "Placements.cfg", workers=1, timeout=600,
                  stream=lambda l: out.append(json.loads(json.loads(l))))
    if not r.ok:
        raise C.HarnessError("Placements model failed: %s" % r.violation)
    stats["states"] += r.distinct
    stats["transitions"] += r.generated
    return out


def crosses(gr, place):
    """does some superclass / include / extend edge of the graph cross namespaces under this placement?"""
    g = gr["g"]
    for c in gr["shape"]:
        for y in [g["sup"][c]] + g["inc"][c] + g["ext"][c]:
            if y and place.get(y, "") != place.get(c, ""):
                return True
    return False


def graph_key(gr):
    return json.dumps(gr["g"], sort_keys=True) + json.dumps(gr["shape"])


def def_lines(d, ind, style="normal"):
    """style: normal | endless (def m = value) | endless2 (def m =\n value) | multiline (signature over two lines, defaulted parameters)"""
    body = LIT[d["ret"]]
    name = d["name"]
    if d["static"] and d["how"] == "sclass":
        inner = def_lines(dict(d, static=False), ind + "  ", style)
        if d["vis"] != "public":
            inner = [ind + "  " + d["vis"]] + inner      # the section opened inside the block ends with the block
        return [ind + "class << self"] + inner + [ind + "end"]
    if d["how"] == "attr":
        return [ind + "attr_accessor :%s" % name, ind + "def fill_%s" % name, ind + "  @%s = %s" % (name, body), ind + "end"]
    head = "def self.%s" % name if d["static"] else "def %s" % name
    if style == "endless":
        return [ind + head + " = " + body]
    if style == "endless2":      # the body of the endless definition on the next line
        return [ind + head + " =", ind + "  " + body]
    if style == "multiline":
        return [ind + head + "(a = 1,", ind + " " * (len(head) + 1) + "b = 2)", ind + "  " + body, ind + "end"]
    return [ind + head, ind + "  " + body, ind + "end"]


def sclass_private(d):
    return d["static"] and d["how"] == "sclass" and d["vis"] != "public"


def path_of(x, names, place):
    ns = (place or {}).get(x, "")
    return (ns + "::" if ns else "") + names.get(x, x)


def ref_from(x, y, names, place):
    """how entity x (a class or module body) names entity y"""
    if not place:
        return names.get(y, y)
    nx, ny = place.get(x, ""), place.get(y, "")
    if ny == nx or ny == "":
        return names.get(y, y)
    return ny + "::" + names.get(y, y)


def render(gr, names=PLAIN, wrap=None, qualify=None, style="normal", place=None):
    """-> (lines, info) where info = {"def_rows": {(owner, name, static): row}, "class_rows": ...}
    wrap: list of module names the whole group is wrapped in.
    place: {entity: namespace} - every class / module is written inside `module <namespace>` (its own block,
    so the namespace is reopened per entity); references across namespaces are qualified."""
    g = gr["g"]
    nm = lambda x: names.get(x, x)  # noqa: E731
    lines = []
    def_rows = {}
    ind0 = ""
    for w in (wrap or []):
        lines.append(ind0 + "module %s" % w)
        ind0 += "  "

    def open_ns(x):
        ns = (place or {}).get(x, "")
        if ns:
            lines.append(ind0 + "module %s" % ns)
            return ind0 + "  ", True
        return ind0, False

    def close_ns(opened):
        if opened:
            lines.append(ind0 + "end")

    used_mods = sorted({m for c in gr["shape"] for m in g["inc"][c] + g["ext"][c]})
    for m in used_mods:
        ind1, opened = open_ns(m)
        lines.append(ind1 + "module %s" % nm(m))
        for d in sorted([d for d in g["defs"] if d["owner"] == m], key=lambda d: not sclass_private(d)):
            def_rows[(m, d["name"], d["static"])] = len(lines) + (3 if sclass_private(d) else 1)
            lines += def_lines(d, ind1 + "  ", style)
        lines.append(ind1 + "end")
        close_ns(opened)
    for c in gr["shape"]:
        sup = g["sup"][c]
        ind1, opened = open_ns(c)
        lines.append(ind1 + ("class %s < %s" % (nm(c), ref_from(c, sup, names, place)) if sup else "class %s" % nm(c)))
        ind = ind1 + "  "
        for m in g["inc"][c]:
            lines.append(ind + "include %s" % ref_from(c, m, names, place))
        for m in g["ext"][c]:
            lines.append(ind + "extend %s" % ref_from(c, m, names, place))
        ar = g["init"][c]
        if ar >= 0:
            lines += [ind + ("def initialize(a)" if ar == 1 else "def initialize"), ind + ("  @v = a" if ar == 1 else "  @v = 1"), ind + "end"]
        own = [d for d in g["defs"] if d["owner"] == c and not d["reopened"]]
        # public definitions first, then one visibility section per non-public one
        # a `class << self` block with its own private section first, then public definitions, then one visibility
        # section per non-public one
        for d in sorted(own, key=lambda d: (not sclass_private(d), d["vis"] != "public", d["name"])):
            if d["vis"] != "public" and not sclass_private(d):
                lines.append(ind + d["vis"])
            def_rows[(c, d["name"], d["static"])] = len(lines) + (3 if sclass_private(d) else 2 if d["static"] and d["how"] == "sclass" else 1)
            lines += def_lines(d, ind, style)
        lines.append(ind1 + "end")
        close_ns(opened)
    for d in [d for d in g["defs"] if d["reopened"]]:
        ind1, opened = open_ns(d["owner"])
        lines.append(ind1 + "class %s" % nm(d["owner"]))
        def_rows[(d["owner"], d["name"], d["static"])] = len(lines) + 1
        lines += def_lines(d, ind1 + "  ", style)
        lines.append(ind1 + "end")
        close_ns(opened)
    for w in reversed(wrap or []):
        ind0 = ind0[:-2]
        lines.append(ind0 + "end")
    return lines, {"def_rows": def_rows}


def query_lines(gr, names=PLAIN, prefix="", place=None):
    """-> (lines, expectations[(line idx, kind, class, name, expected outcome dict)])"""
    g, q = gr["g"], gr["q"]
    nm = lambda x: prefix + path_of(x, names, place)  # noqa: E731
    lines, exp = [], []
    for c in gr["shape"]:
        ar = q[c]["arity"]
        var = "o" + c.lower()
        lines.append("%s = %s.new%s" % (var, nm(c), "(1)" if ar == 1 else ""))
        for n in ("foo", "bar", "baz", "mix", "nope"):
            lines.append("dbtp %s.%s" % (var, n))
            exp.append((len(lines) - 1, "inst", c, n, q[c]["inst"][n]))
        for n in ("foo", "mix", "nope"):
            lines.append("dbtp %s.%s" % (nm(c), n))
            exp.append((len(lines) - 1, "static", c, n, q[c]["static"][n]))
        if ar == 1:
            lines.append("dbtp %s.new" % nm(c))
            exp.append((len(lines) - 1, "new", c, "too-few", {"k": "arity-error", "ret": ""}))
        if ar >= 0:
            lines.append("dbtp %s.new(%s)" % (nm(c), ", ".join(["1"] * (ar + 1))))
            exp.append((len(lines) - 1, "new", c, "too-many", {"k": "arity-error", "ret": ""}))
    return lines, exp


_TYPE = re.compile(r"^(Unknown|untyped|[A-Z][A-Za-z0-9_:]*|Union<.*>|Array<.*>)$")


def observe(msgs):
    """diagnostics of one `dbtp` row -> ('ok', type string) | ('error', first message)"""
    errs = [m for m in msgs if not _TYPE.match(m)]
    types = [m for m in msgs if _TYPE.match(m)]
    if errs:
        return ("error", errs[0])
    if types:
        return ("ok", types[-1])
    return ("none", "")


def agrees(expected, obs):
    """does ti's observation conform to the judgement?"""
    k = expected["k"]
    if k == "ambiguous":
        return True
    if k == "ok":
        if expected.get("attr"):
            # an attribute reader: the instance variable's type, possibly with NilClass (never assigned before the read)
            return obs[0] == "ok" and obs[1] in (expected["ret"], "Union<%s NilClass>" % expected["ret"], "Union<NilClass %s>" % expected["ret"])
        return obs[0] == "ok" and obs[1] == expected["ret"]
    return obs[0] == "error"
