"""Sweep over every configured method of a .ti-config: the harness reads the JSON files itself,
builds for every instance method whose parameter types it understands a set of calls (all
arguments acceptable / one argument of a class no parameter accepts / one argument too few /
one too many), lets TLC judge each (declarations, call) case with spec/Binder.tla
(SweepBinder.tla), and replays the calls into the real binary."""
import collections
import json
import os
import re

from . import common as C
from . import binder as B

V = lambda tt, c: {"tt": tt, "c": c}  # noqa: E731
BASIC = {"Int": [V("INT", "Integer")], "Integer": [V("INT", "Integer")], "String": [V("STRING", "String")],
         "Float": [V("FLOAT", "Float")], "Symbol": [V("SYMBOL", "Symbol")], "Bool": [V("BOOL", "Bool")],
         "Array": [V("ARRAY", "Array")], "Hash": [V("HASH", "Hash")], "NilClass": [V("NIL", "NilClass")],
         "Range": [V("RANGE", "Range")], "Number": [V("INT", "Integer"), V("FLOAT", "Float")],
         "StringArray": [V("ARRAY", "Array")], "IntArray": [V("ARRAY", "Array")], "FloatArray": [V("ARRAY", "Array")],
         "OptionalString": [V("STRING", "String"), V("NIL", "NilClass")], "OptionalInt": [V("INT", "Integer"), V("NIL", "NilClass")],
         "OptionalFloat": [V("FLOAT", "Float"), V("NIL", "NilClass")]}
DEFAULTS = {"DefaultInt": "Int", "DefaultString": "String", "DefaultFloat": "Float", "DefaultBool": "Bool", "DefaultUntyped": "Untyped"}
LIT = {"INT": "1", "STRING": "\"s\"", "FLOAT": "1.5", "SYMBOL": ":a", "BOOL": "true", "ARRAY": "[1]", "HASH": "{a: 1}",
       "NIL": "nil", "RANGE": "(1..2)", "OBJECT": "foo"}
RECV = {"Integer": "1", "String": "\"s\"", "Float": "1.5", "Array": "[1]", "Hash": "{a: 1}", "Symbol": ":a",
        "NilClass": "nil", "Range": "(1..2)"}
IDENT = re.compile(r"^[a-z_][a-z0-9_]*[?!]?$")
OPERATORS = {"==", "!=", "===", "<=>", "+", "-", "*", "/", "%", "<", ">", "<=", ">=", "<<", "&", "|", "^", "**"}
FOO = {"k": "t", "u": False, "vs": [V("OBJECT", "Foo")]}


def parse_type_list(tl):
    """config type list -> (spec type, is_default) or None when not understood"""
    if isinstance(tl, str):
        tl = [tl]
    if not tl:
        return None
    vs, default = [], False
    for t in tl:
        if t in DEFAULTS:
            if len(tl) > 1:
                return None          # a Default* member inside a union: what it means is not documented
            default = True
            t = DEFAULTS[t]
        if t == "Untyped":
            return {"k": "any", "u": False, "vs": []}, default
        if "|" in t or t[:1] in "?*[" or t not in BASIC:
            return None
        for v in BASIC[t]:
            if v not in vs:
                vs.append(v)
    return {"k": "t", "u": len(vs) > 1, "vs": vs}, default


def parse_method(m):
    decl = []
    for a in m.get("arguments") or []:
        pt = parse_type_list(a.get("type") or [])
        if pt is None:
            return None
        ty, default = pt
        default = default or bool(a.get("is_default"))
        key = (a.get("key") or "")
        if key and not key.endswith(":"):
            return None
        if a.get("is_asterisk"):
            kind = "rest"
        elif key:
            kind = "optkey" if default else "key"
        else:
            kind = "opt" if default else "req"
        decl.append({"kind": kind, "key": key[:-1] if key else "", "ty": ty})
    ranks = {"req": 1, "opt": 2, "rest": 3, "key": 4, "optkey": 4}
    if [ranks[p["kind"]] for p in decl] != sorted(ranks[p["kind"]] for p in decl):
        return None                      # not in Ruby's canonical order: the reference binding does not apply
    return decl


blockish = set()     # methods that declare block parameters: called without a block, only judged for MustFail


def methods_of(cfgdir):
    """-> {(class, method): [decl, ...]} for instance methods of classes with a literal receiver"""
    out = collections.OrderedDict()
    skipped = 0
    blockish.clear()
    for f in sorted(os.listdir(cfgdir)):
        if not f.endswith(".json"):
            continue
        try:
            d = json.load(open(os.path.join(cfgdir, f)))
        except Exception:
            continue
        cls = d.get("class")
        if d.get("frame") != "Builtin" or cls not in RECV:
            continue
        for m in d.get("instance_methods") or []:
            name = m.get("name", "")
            if not IDENT.match(name) and not (name in OPERATORS and len(m.get("arguments") or []) == 1):
                skipped += 1
                continue
            if m.get("block_parameters"):
                blockish.add((cls, name))
            decl = parse_method(m)
            if decl is None:
                out[(cls, name)] = None
                continue
            if (cls, name) in out and out[(cls, name)] is None:
                continue
            out.setdefault((cls, name), []).append(decl)
    return collections.OrderedDict((k, v) for k, v in out.items() if v), skipped


def arg_for(ty):
    if ty["k"] == "any":
        return {"k": "t", "u": False, "vs": [V("INT", "Integer")]}
    return {"k": "t", "u": False, "vs": [ty["vs"][0]]}


def cases_for(cls, name, decls):
    d0 = decls[0]
    if name in OPERATORS:
        # infix form only: exactly one operand
        a = {"key": "", "ty": arg_for(d0[0]["ty"])}
        out = [("ok", [a])]
        if d0[0]["ty"]["k"] == "any":
            for tt, c in (("STRING", "String"), ("ARRAY", "Array"), ("HASH", "Hash"), ("NIL", "NilClass")):
                out.append(("ok-untyped-0-%s" % tt, [{"key": "", "ty": {"k": "t", "u": False, "vs": [V(tt, c)]}}]))
        else:
            out.append(("foreign-arg-0", [{"key": "", "ty": FOO}]))
        return out
    ok = []
    for p in d0:
        if p["kind"] == "req":
            ok.append({"key": "", "ty": arg_for(p["ty"])})
    for p in d0:
        if p["kind"] == "key":
            ok.append({"key": p["key"], "ty": arg_for(p["ty"])})
    out = [("ok", ok)]
    # a parameter declared Untyped accepts every kind of literal (array and hash literals included)
    for i, p in enumerate([p for p in d0 if p["kind"] == "req"]):
        if p["ty"]["k"] == "any":
            for tt, c in (("STRING", "String"), ("ARRAY", "Array"), ("HASH", "Hash"), ("NIL", "NilClass")):
                alt = [dict(x) for x in ok]
                alt[i] = {"key": "", "ty": {"k": "t", "u": False, "vs": [V(tt, c)]}}
                out.append(("ok-untyped-%d-%s" % (i, tt), alt))
    full = list(ok)
    nopt = [p for p in d0 if p["kind"] == "opt"]
    if nopt:
        pos = [a for a in ok if not a["key"]] + [{"key": "", "ty": arg_for(p["ty"])} for p in nopt]
        full = pos + [a for a in ok if a["key"]]
        out.append(("ok-with-optionals", full))
    for i, a in enumerate(full):
        bad = [dict(x) for x in full]
        bad[i] = {"key": a["key"], "ty": FOO}
        out.append(("foreign-arg-%d" % i, bad))
    npos = len([a for a in ok if not a["key"]])
    if npos:
        out.append(("one-too-few", [a for j, a in enumerate(ok) if not (not a["key"] and j == npos - 1)]))
    if not any(p["kind"] == "rest" for p in d0):
        pos = [a for a in full if not a["key"]] + [{"key": "", "ty": {"k": "t", "u": False, "vs": [V("INT", "Integer")]}}]
        out.append(("one-too-many", pos + [a for a in full if a["key"]]))
    return out


def call_src(recv_var, name, args):
    if name in OPERATORS:
        if len(args) != 1 or args[0]["key"]:
            return "%s.%s(%s)" % (recv_var, name, ", ".join(LIT[a["ty"]["vs"][0]["tt"]] for a in args))
        return "%s %s %s" % (recv_var, name, LIT[args[0]["ty"]["vs"][0]["tt"]])
    parts = []
    for a in args:
        lit = LIT[a["ty"]["vs"][0]["tt"]]
        parts.append(("%s: %s" % (a["key"], lit)) if a["key"] else lit)
    return "%s.%s(%s)" % (recv_var, name, ", ".join(parts)) if parts else "%s.%s" % (recv_var, name)


def rename_keys(decls, args):
    keys = sorted({p["key"] + ":" for d in decls for p in d if p["key"]} | {a["key"] + ":" for a in args if a["key"]})
    ren = {k[:-1]: "k%02d" % (i + 1) for i, k in enumerate(keys)}
    if len(ren) > 8:
        return None
    nd = [[dict(p, key=ren.get(p["key"], "")) for p in d] for d in decls]
    na = [dict(a, key=ren.get(a["key"], "")) for a in args]
    return nd, na


def judge_with_tlc(work, stats, cases):
    recs = []
    for cid, (decls, args, anyret) in cases.items():
        r = rename_keys(decls, args)
        if r is None:
            continue
        recs.append({"id": cid, "decls": r[0], "args": r[1], "anyret": anyret})
    verdicts = {}

    def feed(line):
        d = json.loads(json.loads(line))
        verdicts[d["id"]] = d
    r = C.run_tlc(work, "SweepBinder", "SweepBinder.cfg", workers=1, timeout=3000, heap="16g", stream=feed,
                  files={"cases.ndjson": "\n".join(json.dumps(x) for x in recs) + "\n"})
    if not r.ok or len(verdicts) != len(recs):
        raise C.HarnessError("SweepBinder judged %d of %d cases: %s" % (len(verdicts), len(recs), r.violation))
    stats["states"] += r.distinct
    stats["transitions"] += r.generated
    return verdicts


def sweep(work, stats, cfgdir, rng=None, limit=None):
    """-> list of dict(id, cls, meth, kind, src, row-diags, mf, mp, asis, job)"""
    meths, skipped = methods_of(cfgdir)
    items = list(meths.items())
    if rng is not None and limit and len(items) > limit:
        items = rng.sample(items, limit)
    cases, info = collections.OrderedDict(), {}
    for (cls, name), decls in items:
        for kind, args in cases_for(cls, name, decls):
            cid = "%s#%s/%s" % (cls, name, kind)
            anyret = False
            cases[cid] = (decls, args, anyret)
            info[cid] = (cls, name, kind, args)
    verdicts = judge_with_tlc(work, stats, cases)
    # one program per class: fresh receiver before each call
    by_cls = collections.OrderedDict()
    for cid, (cls, name, kind, args) in info.items():
        if cid in verdicts:
            by_cls.setdefault(cls, []).append(cid)
    cfg = work.sub("sweepcfg")
    for f in os.listdir(cfgdir):
        os.symlink(os.path.join(cfgdir, f), os.path.join(cfg, f))
    json.dump({"frame": "Builtin", "class": B.FOO, "instance_methods": [],
               "class_methods": [{"name": "new", "arguments": [], "return_type": {"type": [B.FOO]}}]},
              open(os.path.join(cfg, "zz_vffoo.json"), "w"))
    jobs, meta = [], []
    for cls, cids in by_cls.items():
        for s in range(0, len(cids), 120):
            lines = ["foo = %s.new" % B.FOO]
            rows = {}
            for cid in cids[s:s + 120]:
                _, name, kind, args = info[cid]
                lines.append("r = %s" % RECV[cls])
                lines.append(call_src("r", name, args))
                rows[cid] = len(lines)
            jobs.append({"cfg": cfg, "files": {"t.rb": "\n".join(lines) + "\n"}, "args": ["t.rb"]})
            meta.append(rows)
    wr = C.Runner(work, "worker")
    try:
        results = wr.run_many(jobs)
    finally:
        wr.close()
    # a batch that crashed or hung is re-run case by case
    redo_jobs, redo_meta = [], []
    for bi, (rows, job, res) in enumerate(zip(meta, jobs, results)):
        if res.hung or res.crashed or res.get("exit") != 0:
            for cid, row in rows.items():
                cls, name, kind, args = info[cid]
                redo_jobs.append({"cfg": cfg, "files": {"t.rb": "foo = %s.new\nr = %s\n%s\n" % (B.FOO, RECV[cls], call_src("r", name, args))},
                                  "args": ["t.rb"]})
                redo_meta.append({cid: 3})
            meta[bi] = {}
    if redo_jobs:
        wr = C.Runner(work, "worker")
        try:
            redo_results = wr.run_many(redo_jobs)
        finally:
            wr.close()
        meta += redo_meta
        jobs += redo_jobs
        results += redo_results
    out = []
    for rows, job, res in zip(meta, jobs, results):
        failed = res.hung or res.crashed or res.get("exit") != 0
        diag = collections.defaultdict(list)
        if not failed:
            for kind, f, row, msg in C.parse_lines(res["out"]):
                if kind == "d":
                    diag[row].append(msg)
        for cid, row in rows.items():
            cls, name, kind, args = info[cid]
            v = verdicts[cid]
            out.append({"id": cid, "cls": cls, "meth": name, "kind": kind, "src": call_src("r", name, args),
                        "diag": None if failed else diag.get(row, []), "mf": v["mf"],
                        "mp": v["mp"] and (cls, name) not in blockish, "asis": v["asis"],
                        "cfg": cfg, "recv": RECV[cls], "failed": failed,
                        "failure": ("%s@%s" % (res.get("cls"), res.get("site"))) if failed else None})
    stats["sweep_methods"] = len(items)
    stats["sweep_cases"] = len(out)
    stats["sweep_methods_not_understood"] = skipped
    return out


def run_alone(work, case):
    text = "foo = %s.new\nr = %s\n%s\n" % (B.FOO, case["recv"], case["src"])
    job = {"cfg": case["cfg"], "files": {"t.rb": text}, "args": ["t.rb"]}
    rr = C.confirm_alone(work, job, runs=1)[0]
    diag = [m for k, f, row, m in C.parse_lines(rr.get("out") or "") if k == "d" and row == 3]
    return job, rr, diag
