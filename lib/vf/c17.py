"""C17 - block parameters get their declared types, block locals stay local.

spec/Blocks.tla writes block programs line by line (configured iterator methods of Array, Hash,
Range, String, Integer; 0-3 block variables; shadowing of an outer variable; a local first
assigned inside; nesting; do/end and braces) with the environment every line must produce; TLC
enumerates all programs of the bound and checks scope restoration on the model; every program
is replayed into the real binary with dbtp probes.
"""
import collections
import json

from . import common as C
from . import core as K

PER_FILE = 25
SETUP = ["a = [1, \"s\"]", "h = {a: 1, b: \"s\"}", "r = (1..3)", "s = \"ab\"", "n = 3", "e = 1.5"]
OUTER = ("a", "h", "r", "s", "n")


def render(prog, sfx=""):
    ren = lambda v: v + sfx  # noqa: E731
    lines = []
    for l in SETUP:
        var, rest = l.split(" = ", 1)
        lines.append("%s = %s" % (ren(var), rest))
    probes = []
    styles = []
    nblk = 0
    wname = []       # name of the local each open block assigns (distinct per block: a mention of a
    last_w = None    # name before a block would make it exist outside)
    for i, st in enumerate(prog):
        l = st["line"]
        if l["op"] == "block":
            nblk += 1
            wname.append("w%d" % nblk)
            bv = ", ".join(ren(x) for x in l["bvars"])
            bars = (" |%s|" % bv) if l["bvars"] else ""
            if l["style"] == "do":
                lines.append("%s.%s do%s" % (ren(l["recv"]), l["meth"], bars))
            else:
                lines.append("%s.%s {%s" % (ren(l["recv"]), l["meth"], bars))
            styles.append(l["style"])
        elif l["op"] == "local":
            # the model has one local `w`; the innermost open block without one assigns it
            last_w = wname[-1]
            lines.append("%s = 1" % ren(last_w))
        else:
            lines.append("end" if styles.pop() == "do" else "}")
            wname.pop()
        for var in ("e", "u", "q", "w"):
            t = st["env"][var]
            if var == "w":
                if last_w is None:
                    continue
                if not t:
                    if l["op"] == "end":
                        lines.append("dbtp %s" % ren(last_w))
                        probes.append((len(lines) - 1, var, "absent", i))
                        last_w = None
                    continue
                lines.append("dbtp %s" % ren(last_w))
                probes.append((len(lines) - 1, var, ("t", frozenset(("c", n) for n in t)), i))
                continue
            if not t:
                continue
            exp = ("untyped",) if t == ["?"] else ("t", frozenset(("c", n) for n in t))
            lines.append("dbtp %s" % ren(var))
            probes.append((len(lines) - 1, var, exp, i))
    return lines, probes


def observe(diag, base, probes):
    out = []
    for (li, var, exp, si) in probes:
        msgs = diag.get(base + li + 1, [])
        if exp == "absent":
            got = "absent" if msgs[:1] == ["Unknown"] else (K.parse_ti_type(msgs[0]) if msgs else None)
        else:
            got = K.parse_ti_type(msgs[0]) if msgs else None
        out.append((var, exp, got, si, msgs[:1]))
    return out


def emit(work, stats, consts, simulate=None, extra=None):
    progs = []

    def feed(line):
        progs.append(json.loads(json.loads(line)))
    c = dict(consts)
    c["EMIT"] = "TRUE"
    r = C.run_tlc(work, "MCBlocks", "Blocks.cfg", workers=1, timeout=3000, stream=feed, heap="16g", consts=c,
                  simulate=simulate, extra=extra)
    if not r.ok:
        raise C.HarnessError("Blocks model violates its own properties: %s" % r.violation)
    stats["states"] += max(r.distinct, len(progs))
    stats["transitions"] += max(r.generated, len(progs))
    return progs


def diags(out):
    d = collections.defaultdict(list)
    for kind, f, row, msg in C.parse_lines(out or ""):
        if kind == "d":
            d[row].append(msg)
    return d


def classify(prog, si, var, exp, got):
    l = prog[si]["line"]
    # find the governing block line
    blk = None
    depth = 0
    for st in prog[:si + 1]:
        if st["line"]["op"] == "block":
            blk = st["line"]
            depth += 1
        elif st["line"]["op"] == "end":
            depth -= 1
    where = l["op"]
    if where == "end":
        if exp == "absent":
            return "block-local-visible-after-block"
        return "outer-variable-not-restored-after-%s.%s" % (blk["recv"], blk["meth"])
    n = len(blk["bvars"])
    idx = blk["bvars"].index(var) + 1 if var in blk["bvars"] else 0
    return "block-param:%s.%s/%d-vars/#%d%s" % ({"a": "Array", "h": "Hash", "r": "Range", "s": "String", "n": "Integer"}[blk["recv"]],
                                                 blk["meth"], n, idx, "/nested" if depth > 1 else "")


def run(tier, work):
    v = C.Verdict("C17", tier, work)
    stats = dict(states=0, transitions=0, runs=0)
    progs = emit(work, stats, dict(MAXVARS=3, MAXDEPTH=1, MAXBLOCKS=1))
    if tier == "quick":
        progs += emit(work, stats, dict(MAXVARS=1, MAXDEPTH=2, MAXBLOCKS=2))
    else:
        progs += emit(work, stats, dict(MAXVARS=2, MAXDEPTH=2, MAXBLOCKS=2))
    cfg = K.build_config(work)
    jobs, meta = [], []
    for s in range(0, len(progs), PER_FILE):
        lines, pm = [], []
        for k, prog in enumerate(progs[s:s + PER_FILE]):
            pl, probes = render(prog, "_%d" % k)
            pm.append((len(lines), probes))
            lines.extend(pl)
        jobs.append({"cfg": cfg, "files": {"t.rb": "\n".join(lines) + "\n"}, "args": ["t.rb"]})
        meta.append((s, pm))
    wr = C.Runner(work, "worker")
    try:
        results = wr.run_many(jobs)
    finally:
        wr.close()
    nprobes = 0
    for (s, pm), res in zip(meta, results):
        stats["runs"] += 1
        bad_batch = res.hung or res.crashed or res.get("exit") != 0
        d = diags(res.get("out")) if not bad_batch else None
        for k, (base, probes) in enumerate(pm):
            prog = progs[s + k]
            obs = observe(d, base, probes) if d is not None else [("?", 0, 1, 0, [])]
            nprobes += len(obs)
            mm = [o for o in obs if o[1] != o[2]]
            if not mm:
                continue
            var, exp, got, si, raw = mm[0]
            key0 = classify(prog, si, var, exp, got) if d is not None else None
            if key0 and v.seen(key0):
                v.again(key0)
                continue
            lines, probes1 = render(prog, "")
            job = {"cfg": cfg, "files": {"t.rb": "\n".join(lines) + "\n"}, "args": ["t.rb"]}
            rr = C.confirm_alone(work, job, runs=1)[0]
            obs1 = observe(diags(rr.get("out")), 0, probes1)
            mm1 = [o for o in obs1 if o[1] != o[2]]
            if not mm1:
                v.count("mismatch_only_in_batch")
                continue
            var, exp, got, si, raw = mm1[0]
            key = classify(prog, si, var, exp, got)
            v.fail(key, "program %r: after line %d dbtp %s says %s, the model says %s" % (
                [l for l in lines[len(SETUP):] if not l.startswith("dbtp")], si + 1, var, raw,
                exp if isinstance(exp, str) else K.show(exp)), C.job_files_for_replay(job), detail={"out": rr.get("out")})
    for p in progs[:3]:
        v.sample({"program": [l for l in render(p)[0][len(SETUP):] if not l.startswith("dbtp")]})
    cov = {"states": stats["states"], "transitions": stats["transitions"], "traces_validated_against_impl": len(progs),
           "probes_compared": nprobes, "real_runs": stats["runs"], "exhaustive": True,
           "rule": "every Blocks.tla program of the bound: 9 configured iterator methods over Array/Hash/Range/String/"
                   "Integer receivers, 0-3 block variables drawn from {e (shadows an outer Float), p, q}, a local first "
                   "assigned inside, nesting depth 2, do/end and braces; dbtp of block variables and of the local after "
                   "every line, of the shadowed variable and the local after every end"}
    return v.finish("model_checking", cov, assumptions=[
        "Flatten is specified only for one block variable over scalar elements",
        "a block variable that did not exist before the block is unspecified after it"])


def replay(work, path):
    return 0
