"""C25 - rbs2json conversion is deterministic and keeps the signature shape.

spec/Tools.tla: every RBS function type (0-2 required, 0-2 optional, rest, trailing positional,
required / optional keywords over three names) with every list convertArguments may emit for it.
TLC checks the documented shape, determinism (with keywords sorted; as shipped the keyword order
is a map iteration order - the model's schedule) and that the emitted list accepts exactly the
RBS arities.  Binding: the AST JSON of each function type is fed to the real rbs2json through a
stand-in `ruby` on PATH that prints it; the conversion is run 5 times (bytes compared), the
emitted arguments are compared with the model's, and the result is loaded into ti and called
with 0..6 positional arguments.
"""
import json
import os
import stat
import subprocess

from . import common as C
from . import tools as T

TYPES = {"Integer": {"class": "class_instance", "name": "::Integer", "args": []},
         "String": {"class": "class_instance", "name": "::String", "args": []}}


def param(i, ty="Integer"):
    return {"name": "p%d" % i, "type": TYPES[ty]}


def ast_for(cases):
    decls = []
    for i, c in enumerate(cases):
        s = c["s"]
        ft = {"required_positionals": [param(j) for j in range(s["r"])],
              "optional_positionals": [param(j) for j in range(s["o"])],
              "rest_positionals": param(0) if s["rest"] else None,
              "trailing_positionals": [param(j) for j in range(s["t"])],
              "required_keywords": {k: param(0) for k in s["rk"]},
              "optional_keywords": {k: param(0, "String") for k in s["ok"]},
              "rest_keywords": None,
              "return_type": {"class": "class_instance", "name": "::Integer", "args": []}}
        decls.append({"declaration": "class", "name": "VfRbs%d" % i, "type_params": [], "super_class": None, "comment": None,
                      "members": [{"member": "method_definition", "name": "m", "kind": "instance", "visibility": "public",
                                   "overloads": [{"method_type": {"type_params": [], "type": ft, "block": None}}], "comment": None},
                                  {"member": "method_definition", "name": "initialize", "kind": "instance", "visibility": "public",
                                   "overloads": [{"method_type": {"type_params": [], "block": None, "type": {
                                       "required_positionals": [], "optional_positionals": [], "rest_positionals": None,
                                       "trailing_positionals": [], "required_keywords": {}, "optional_keywords": {},
                                       "rest_keywords": None, "return_type": {"class": "void"}}}}], "comment": None}]})
    return decls


def kind_of(a):
    if a.get("is_asterisk"):
        return "rest"
    if a.get("key"):
        return "optkey" if a.get("is_default") else "key"
    return "opt" if a.get("is_default") else "req"


def run(tier, work):
    v = C.Verdict("C25", tier, work)
    rng = C.tier_rng(tier, 25)
    stats = dict(states=0, transitions=0)
    sorted_kw = v.findings.match("C25", "Dev_MapOrderKeywords") is None      # fixed or never listed
    if not T.model_holds(work, stats, "rbs", True, True, "Shape Determ RbsArity"):
        raise C.HarnessError("intended rbs2json model violates its properties")
    if T.model_holds(work, stats, "rbs", False, True, "Determ"):
        raise C.HarnessError("self-test: map-order keyword emission is deterministic in the model (vacuous)")
    cases = T.emit(work, stats, "rbs", sorted_kw, True)
    if tier == "quick":
        heavy = [c for c in cases if len(c["s"]["rk"]) + len(c["s"]["ok"]) >= 2]
        cases = rng.sample(heavy, 90) + rng.sample(cases, 110)
    tool = T.build_tool(work, "./cmd/rbs2json", "rbs2json")
    d = work.sub("rbs")
    fake = os.path.join(d, "bin")
    os.makedirs(fake)
    with open(os.path.join(fake, "ruby"), "w") as f:
        f.write("#!/bin/sh\n# stand-in for ruby: rbs2json runs `ruby <script> <input>`; the input already is the AST JSON\ncat \"$2\"\n")
    os.chmod(os.path.join(fake, "ruby"), 0o755)
    inp = os.path.join(d, "in.rbs")
    json.dump(ast_for(cases), open(inp, "w"))
    env = dict(os.environ)
    env["PATH"] = fake + ":" + env["PATH"]
    outs = []
    for k in range(5):
        r = subprocess.run([tool, inp], capture_output=True, text=True, env=env, cwd=d)
        if r.returncode != 0:
            raise C.HarnessError("rbs2json failed: %s" % r.stderr[-800:])
        outs.append(r.stdout)
    confs = json.loads(outs[0])
    if isinstance(confs, dict):
        confs = [confs]
    byname = {c["class"]: c for c in confs}
    # determinism, case by case
    all_confs = [json.loads(o) for o in outs]
    for i, c in enumerate(cases):
        name = "VfRbs%d" % i
        variants = {json.dumps([m for m in next(x for x in ac if x["class"] == name)["instance_methods"] if m["name"] == "m"], sort_keys=False)
                    for ac in all_confs}
        if len(variants) > 1:
            key = "Dev_MapOrderKeywords"
            s = c["s"]
            v.fail(key, "RBS type r=%d o=%d rest=%s t=%d required keywords %s optional keywords %s: 5 conversions give %d different argument lists" % (
                s["r"], s["o"], s["rest"], s["t"], s["rk"], s["ok"], len(variants)),
                {"input/in.rbs": json.dumps(ast_for([c]), indent=1)}, detail={"variants": sorted(variants)[:3]})
    # shape against the model, arity against ti
    jobs, meta = [], []
    cfg = T.config_with(work, "rbscfg", confs)
    shape_checked = 0
    for i, c in enumerate(cases):
        conf = byname.get("VfRbs%d" % i)
        if conf is None:
            raise C.HarnessError("rbs2json dropped class VfRbs%d" % i)
        m = [x for x in conf["instance_methods"] if x["name"] == "m"]
        if len(m) != 1:
            raise C.HarnessError("method m missing for case %d" % i)
        got = [(kind_of(a), (a.get("key") or "").rstrip(":")) for a in m[0]["arguments"]]
        want = [(a["kind"], a["key"]) for a in c["e"]]
        shape_checked += 1
        if sorted_kw and got != want or (not sorted_kw and (sorted(got) != sorted(want) or [g[0] for g in got] != [w[0] for w in want])):
            s = c["s"]
            v.fail("shape:%s" % "/".join(sorted({g[0] for g in got} ^ {w[0] for w in want}) or ["order"]),
                   "RBS type %s: emitted %s, the model says %s" % (s, got, want), {"input/in.rbs": json.dumps(ast_for([c]), indent=1)})
            continue
        kwargs = ["%s: 1" % k for k in sorted(c["s"]["rk"])]
        rows = ["o = VfRbs%d.new" % i] + T.arity_rows("o", "m", kwargs, m[0]["arguments"])
        jobs.append({"cfg": cfg, "files": {"t.rb": "\n".join(rows) + "\n"}, "args": ["t.rb"]})
        meta.append(i)
    wr = C.Runner(work, "worker")
    try:
        results = wr.run_many(jobs)
    finally:
        wr.close()
    arity_checked = 0
    for i, job, res in zip(meta, jobs, results):
        c = cases[i]
        if res.hung or res.crashed or res.get("exit") != 0:
            key = "ti-fails-on-converted-config:%s" % res.get("site")
            if not v.seen(key):
                v.fail(key, "ti fails on the configuration converted from %s" % c["s"], C.job_files_for_replay(job))
            continue
        acc = T.accepted_by_row(res["out"], 2, 7)
        want = [c["acc"][str(k)] if isinstance(c["acc"], dict) else c["acc"][k] for k in range(7)]
        arity_checked += 1
        if acc == want:
            continue
        s = c["s"]
        shape = "r%d-o%d-%s-t%d" % (s["r"], s["o"], "rest" if s["rest"] else "norest", s["t"])
        ks = [k for k in range(7) if acc[k] != want[k]]
        key = "arity:%s:%s" % (shape, "accepts-too-much" if acc[ks[0]] else "rejects-valid")
        if s["o"] >= 1 and s["t"] >= 1:
            # optional positionals in front of rest + a trailing required one: ti binds left to right
            key = "Dev_TrailingAfterOptionalArity"
        if v.seen(key):
            v.again(key)
            continue
        rr = C.confirm_alone(work, job, runs=1)[0]
        if T.accepted_by_row(rr.get("out") or "", 2, 7) == want:
            v.count("not_reproduced_alone")
            continue
        v.fail(key, "RBS type %s allows %s positional arguments, ti with the converted configuration accepts %s" % (
            s, [k for k in range(7) if want[k]], [k for k in range(7) if acc[k]]), C.job_files_for_replay(job))
    v.sample({"rbs_function_type": cases[0]["s"], "model_emission": cases[0]["e"]})
    cov = {"states": stats["states"], "transitions": stats["transitions"], "traces_validated_against_impl": shape_checked,
           "conversions_compared_for_determinism": 5, "function_types": len(cases), "arity_probes": arity_checked * 7,
           "exhaustive": tier != "quick",
           "rule": "RBS function types enumerated by TLC (729); AST JSON fed to the real rbs2json via a stand-in ruby; 5 conversions "
                   "byte-compared; emitted arguments compared with the model; ti called with 0..6 positional arguments"}
    return v.finish("model_checking", cov, assumptions=[
        "the embedded Ruby script is replaced by a stand-in that prints the AST JSON (ruby and the rbs gem are not part of the check)"])


def replay(work, path):
    return 0
