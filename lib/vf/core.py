"""Concretiser / abstractor for spec/Core.tla programs (used by C09, C10, C17 and, as a source
of typed hosts and fragments, by C06, C11, C12, C13, C18)."""
import json
import os
import re

from . import common as C

LIT = {"Integer": "1", "String": "\"s\"", "Float": "1.5", "Symbol": ":s", "NilClass": "nil", "Bool": "true"}


# ---------------------------------------------------------------- configuration

def vf_methods():
    def m(name, ret, args=None, cond=False):
        r = {"type": ret}
        if cond:
            r["is_conditional"] = True
        return {"name": name, "arguments": args or [], "return_type": r}
    common = [m("vf_int", ["Int"]), m("vf_u", ["Int", "String"]), m("vf_sarr", ["[String]"]),
              m("vf_opt", ["?String"]), m("vf_self", ["Self"]), m("vf_arg", ["Argument"], [{"type": ["Untyped"]}]),
              m("vf_cond", ["Int", "Float"], [{"type": ["Int", "Float"]}], cond=True)]
    mixed = [m("vf_unify_nil", ["Unify", "NilClass"]), m("vf_self_int", ["Self", "Int"]), m("vf_unify_str", ["Unify", "String"])]
    per = {"Array": common + mixed + [m("vf_unify", ["Unify"]), m("vf_ounify", ["OptionalUnify"]), m("vf_selfarr", ["SelfArray"])],
           "Hash": common + mixed + [m("vf_unify", ["Unify"]), m("vf_kva", ["KeyValueArray"])],
           "String": list(common), "Integer": list(common), "Float": list(common)}
    return per


def build_config(work, name="corecfg", extra=None):
    d = work.sub(name)
    for f in os.listdir(C.SHIPPED_CFG):
        os.symlink(os.path.join(C.SHIPPED_CFG, f), os.path.join(d, f))
    for cls, ms in vf_methods().items():
        json.dump({"frame": "Builtin", "class": cls, "instance_methods": ms},
                  open(os.path.join(d, "zz_vf_%s.json" % cls.lower()), "w"))
    for n, c in (extra or {}).items():
        json.dump(c, open(os.path.join(d, n), "w"))
    return d


# ---------------------------------------------------------------- types

def model_type(t):
    """Core.tla Type (JSON) -> canonical python form:
    ('none',) | ('untyped',) | ('t', frozenset(atoms)), atom = ('c', name) | ('arr', frozenset(names)) | ('hsh',)"""
    if t["k"] == "none":
        return ("none",)
    if t["k"] == "untyped":
        return ("untyped",)
    atoms = set()
    for a in t["s"]:
        if a["a"] == "c":
            atoms.add(("c", a["n"]))
        elif a["a"] == "arr":
            atoms.add(("arr", frozenset(a["e"])))
        else:
            atoms.add(("hsh",))
    return ("t", frozenset(atoms))


_TOK = re.compile(r"Union<|Array<|>|[^\s<>]+")


def parse_ti_type(s):
    """ti's printed type -> canonical form (same shape as model_type); None if unparsable.
    A union printed inside a union, or a union listing the same member twice, is not a type the
    reference model ever has: it is returned as ('malformed', text) and equals nothing."""
    st = s.strip()
    if re.search(r"Union<[^<>]*Union<", st) or re.search(r"Union<Union<", st):
        return ("malformed", st)
    for inner in re.findall(r"(?:Union|Array)<([^<>]*)>", st):
        parts = inner.split()
        if len(parts) != len(set(parts)):
            return ("malformed", st)
    toks = _TOK.findall(st)
    pos = [0]

    def atoms():
        out = set()
        while pos[0] < len(toks) and toks[pos[0]] != ">":
            t = toks[pos[0]]
            pos[0] += 1
            if t == "Union<":
                out |= atoms()
                pos[0] += 1
            elif t == "Array<":
                inner = atoms()
                pos[0] += 1
                names = set()
                for a in inner:
                    if a[0] == "c":
                        names.add(a[1])
                    elif a[0] == "untyped":
                        pass
                    else:
                        names.add("Array" if a[0] == "arr" else "Hash")
                out.add(("arr", frozenset(names)))
            elif t == "Hash":
                out.add(("hsh",))
            elif t == "untyped":
                out.add(("untyped",))
            else:
                out.add(("c", t))
        return out

    try:
        a = atoms()
    except Exception:
        return None
    if pos[0] != len(toks):
        return None
    if a == {("untyped",)}:
        return ("untyped",)
    if not a:
        return None
    a.discard(("untyped",))
    return ("t", frozenset(a))


def show(t):
    if t is None:
        return "?"
    if t[0] == "malformed":
        return "malformed(%s)" % t[1]
    if t[0] != "t":
        return t[0]
    parts = []
    for a in sorted(t[1], key=str):
        if a[0] == "c":
            parts.append(a[1])
        elif a[0] == "arr":
            parts.append("Array<%s>" % " ".join(sorted(a[1])))
        else:
            parts.append("Hash")
    return "|".join(parts)


# ---------------------------------------------------------------- statements

def stmt_src(s, sfx=""):
    op = s["op"]
    v = lambda n: n + sfx  # noqa: E731
    if op == "lit":
        return "%s = %s" % (v(s["v"]), LIT[s["c"]])
    if op == "arr":
        return "%s = [%s]" % (v(s["v"]), ", ".join(LIT[c] for c in s["lit"]))
    if op == "hash":
        return "%s = {%s}" % (v(s["v"]), ", ".join("%s: %s" % (e["k"], LIT[e["c"]]) for e in s["lit"]))
    if op == "ternary":
        return "%s = true ? %s : %s" % (v(s["v"]), LIT[s["c1"]], LIT[s["c2"]])
    if op == "var":
        return "%s = %s" % (v(s["v"]), v(s["w"]))
    if op == "idx":
        return "%s = %s[0]" % (v(s["v"]), v(s["w"]))
    if op == "key":
        return "%s = %s[:%s]" % (v(s["v"]), v(s["w"]), s["k"])
    if op == "push":
        return "%s.push(%s)" % (v(s["w"]), LIT[s["c"]])
    if op == "shl":
        return "%s << %s" % (v(s["w"]), LIT[s["c"]])
    if op == "masgn":
        return "%s, %s = %s, %s" % (v(s["v"]), v(s["w"]), LIT[s["c1"]], LIT[s["c2"]])
    if op == "opasgn":
        return "%s += %s" % (v(s["v"]), LIT[s["c"]])
    if op == "call":
        arg = "(%s)" % LIT[s["arg"]] if s.get("arg") else ""
        return "%s = %s.%s%s" % (v(s["v"]), v(s["w"]), s["m"], arg)
    raise C.HarnessError("unknown statement %r" % (s,))


def stmt_short(s):
    return s["op"] + (":" + s["m"] if s["op"] == "call" else "")


def render_program(prog, sfx=""):
    """-> (lines, probes) ; probes: list of (line index (0-based) of the dbtp row, var, expected type, stmt index)"""
    lines, probes = [], []
    for i, st in enumerate(prog):
        lines.append(stmt_src(st["stmt"], sfx))
        for var in sorted(st["env"]):
            t = model_type(st["env"][var])
            if t[0] == "none":
                continue
            lines.append("dbtp %s" % (var + sfx))
            probes.append((len(lines) - 1, var, t, i))
    return lines, probes


def prog_key(prog):
    return json.dumps([st["stmt"] for st in prog], sort_keys=True)
