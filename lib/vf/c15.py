"""C15 - user method parameter and return types are inferred from all call sites.

spec/Methods.tla is the reference: ParamT(m) = classes passed at m's call sites plus, through
methods whose body calls m with their own parameter, those methods' ParamT (least fixed point);
RetT(m) = ParamT(m) / String / RetT(callee) by body form.  TLC enumerates every program of 2-3
methods, every acyclic call graph, 1-3 top-level call sites with Integer / String / Float
arguments and every order of the definitions.  Replay: `dbtp p` in every body must print a
type that covers ParamT(m); `dbtp` of every call result must print exactly RetT(callee); the -i
signature hint of every method must show the same parameter type.
"""
import collections
import json

from . import common as C
from . import core as K
from . import methods as M
from . import methodbodies as MB


def run(tier, work):
    v = C.Verdict("C15", tier, work)
    rng = C.tier_rng(tier, 15)
    stats = dict(states=0, transitions=0, runs=0)
    progs = M.emit(work, stats, 2, 3) + M.emit(work, stats, 3, 2)
    if tier == "quick":
        progs = M.emit(work, stats, 2, 2) + rng.sample(progs, 1500)
    jobs, meta = [], []
    for p in progs:
        lines, info = M.render(p)
        jobs.append({"files": {"t.rb": "\n".join(lines) + "\n"}, "args": ["t.rb", "-i"]})
        meta.append(info)
    wr = C.Runner(work, "worker")
    try:
        results = wr.run_many(jobs)
    finally:
        wr.close()
    checked = 0
    for p, info, job, res in zip(progs, meta, jobs, results):
        if res.hung or res.crashed or res.get("exit") != 0:
            key = "crash-or-hang:%s@%s" % (res.get("cls"), res.get("site"))
            if not v.seen(key):
                v.fail(key, "method program fails", C.job_files_for_replay(job))
            else:
                v.again(key)
            continue
        stats["runs"] += 1
        bad = judge(p, info, res["out"])
        checked += len(p["order"]) + len(p["sites"])
        for key, what in bad:
            if v.seen(key):
                v.again(key)
                continue
            rr = C.confirm_alone(work, job, runs=1)[0]
            if not any(k == key for k, _ in judge(p, info, rr.get("out") or "")):
                v.count("not_reproduced_blackbox")
                continue
            v.fail(key, what + " in program %r" % job["files"]["t.rb"], C.job_files_for_replay(job), detail={"out": rr.get("out")})
    # second universe: one method with positional / defaulted / keyword parameters, explicit return, class-specific
    # operations, call sites before / after the definition and inside another method (spec/MethodBodies.tla)
    bprogs = MB.emit(work, stats, 2)
    if tier == "quick":
        bprogs = rng.sample(bprogs, 4000)
    else:
        bprogs = bprogs + rng.sample(MB.emit(work, stats, 3), 40000)
    bjobs, bmeta = [], []
    for i, p in enumerate(bprogs):
        lines, info = MB.render(p)
        hints = i % 2 == 0
        info["with_hints"] = hints
        bjobs.append({"files": {"t.rb": "\n".join(lines) + "\n"}, "args": ["t.rb", "-i"] if hints else ["t.rb"]})
        bmeta.append(info)
    wr = C.Runner(work, "worker")
    try:
        bresults = wr.run_many(bjobs)
    finally:
        wr.close()
    for p, info, job, res in zip(bprogs, bmeta, bjobs, bresults):
        if res.get("skipped"):
            v.count("skipped_jobs")
            continue
        if res.hung or res.crashed or res.get("exit") != 0:
            key = "crash-or-hang:%s@%s" % (res.get("cls"), res.get("site"))
            if not v.seen(key):
                v.fail(key, "method program fails", C.job_files_for_replay(job))
            else:
                v.again(key)
            continue
        stats["runs"] += 1
        checked += 2 + len(p["sites"])
        for key, what in MB.judge(p, info, res["out"]):
            if v.seen(key):
                v.again(key)
                continue
            rr = C.confirm_alone(work, job, runs=1)[0]
            if not any(k == key for k, _ in MB.judge(p, info, rr.get("out") or "")):
                v.count("not_reproduced_blackbox")
                continue
            v.fail(key, what + " in program %r" % job["files"]["t.rb"], C.job_files_for_replay(job), detail={"out": rr.get("out")})
    # third universe (spec/MethodPaths.tla): the method is inherited through one or two levels, the classes sit in
    # namespaces, the call sites at the top level, in a top-level method or in methods of classes in namespaces
    from . import methodpaths as MP
    pprogs = MP.emit(work, stats, 2)
    pprogs = rng.sample(pprogs, 2500 if tier == "quick" else 35000)
    pjobs, pmeta = [], []
    for p in pprogs:
        lines, info = MP.render(p)
        pjobs.append({"files": {"t.rb": "\n".join(lines) + "\n"}, "args": ["t.rb", "-i"]})
        pmeta.append(info)
    wr = C.Runner(work, "worker")
    try:
        presults = wr.run_many(pjobs)
    finally:
        wr.close()
    for p, info, job, res in zip(pprogs, pmeta, pjobs, presults):
        if res.get("skipped"):
            v.count("skipped_jobs")
            continue
        if res.hung or res.crashed or res.get("exit") != 0:
            key = "crash-or-hang:%s@%s" % (res.get("cls"), res.get("site"))
            if not v.seen(key):
                v.fail(key, "method program fails", C.job_files_for_replay(job))
            else:
                v.again(key)
            continue
        stats["runs"] += 1
        checked += 1 + len(p["sites"])
        for key, what in MP.judge_types(p, info, res["out"]):
            if v.seen(key):
                v.again(key)
                continue
            rr = C.confirm_alone(work, job, runs=1)[0]
            if not any(k == key for k, _ in MP.judge_types(p, info, rr.get("out") or "")):
                v.count("not_reproduced_blackbox")
                continue
            v.fail(key, what + " in program %r" % job["files"]["t.rb"], C.job_files_for_replay(job), detail={"out": rr.get("out")})
    v.sample({"program": MB.render(bprogs[0])[0], "ArgT": bprogs[0]["argT"], "RetT": bprogs[0]["retT"]})
    v.sample({"program": M.render(progs[0])[0], "ParamT": progs[0]["param"], "RetT": progs[0]["ret"]})
    cov = {"states": stats["states"], "transitions": stats["transitions"], "traces_validated_against_impl": stats["runs"],
           "probes_compared": checked, "programs": len(progs), "method_body_programs": len(bprogs), "method_path_programs": len(pprogs), "exhaustive": tier != "quick",
           "rule": "every Methods.tla program: 2-3 methods with one parameter, body returning the parameter / a literal / another "
                   "method's result (acyclic), 1-3 top-level call sites with Integer/String/Float arguments, every definition order; "
                   "every MethodBodies.tla program: one method with positional / defaulted / keyword parameters, body = parameter / second "
                   "parameter / explicit return / class-specific operation, 1-3 call sites before / after the definition or inside another "
                   "method; parameter probes, result probes, diagnostics of the operation and the -i signature hint judged; every "
                   "MethodPaths.tla program (sampled): the method inherited through 0-2 levels, classes placed in namespaces, call "
                   "sites at the top level / in a top-level method / in methods of classes in namespaces"}
    return v.finish("model_checking", cov, assumptions=[
        "parameter types must COVER the union of the call-site types (a superset is accepted), results must EQUAL the model's"])


def judge(p, info, out):
    diag = collections.defaultdict(list)
    for kind, f, row, msg in C.parse_lines(out):
        if kind == "d":
            diag[row].append(msg)
    bad = []
    order_kind = order_shape(p)
    for m in p["order"]:
        want = set(p["param"][m])
        msgs = diag.get(info["param_probe"][m], [])
        got = K.parse_ti_type(msgs[0]) if msgs else None
        names = {a[1] for a in got[1] if a[0] == "c"} if got and got[0] == "t" else set()
        if got is not None and got[0] == "untyped":
            names = want        # untyped covers everything
        if not want <= names:
            depth = p["depth"][m]
            key = "param-not-covered:depth%d:%s" % (depth, order_kind)
            if depth >= 2 and order_kind == "callee-first":
                key = "Dev_RoundsExhausted"
            bad.append((key, "parameter of %s is reported as %r, the call sites pass %s" % (m, msgs[:1], sorted(want))))
    for i, s in enumerate(p["sites"]):
        want = set(p["ret"][s["callee"]])
        msgs = diag.get(info["result_probe"][i], [])
        got = K.parse_ti_type(msgs[0]) if msgs else None
        names = {a[1] for a in got[1] if a[0] == "c"} if got and got[0] == "t" else None
        if names != want:
            b = p["body"][s["callee"]]["k"]
            bad.append(("result-differs:body-%s:%s" % (b, order_kind), "result of %s(%s) is reported as %r, the model says %s" % (
                s["callee"], s["c"], msgs[:1], sorted(want))))
    return bad


def order_shape(p):
    """caller-first / callee-first / mixed / no-calls, by the positions of callers and callees in the file"""
    pos = {m: i for i, m in enumerate(p["order"])}
    rel = set()
    for m, b in p["body"].items():
        if b["k"] == "call":
            rel.add("caller-first" if pos[m] < pos[b["callee"]] else "callee-first")
    if not rel:
        return "no-calls"
    return rel.pop() if len(rel) == 1 else "mixed"


def replay(work, path):
    return 0
