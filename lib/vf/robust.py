"""Shared machinery of the robustness properties C01 (no crash), C02 (terminates) and
C04 (editor modes never crash or hang).

Inputs come from spec/ProgGen.tla (TLC enumerates token sequences and grammar-shaped
programs with mutations) and from the corpus (every line prefix).  Each input is run
through the real code (in-process worker for volume, black-box binary for
confirmation), the run's event trace is validated against spec/Run.tla by TLC
(spec/TraceRun.tla), and the property's clauses are judged on the real outcome.
"""
import json
import os
import re

from . import common as C

TOKENS_ALL = ["def", "class", "module", "if", "unless", "elsif", "else", "end", "do", "while", "case", "when",
              "in", "return", "self", "x", "K", "Foo", "1", "\"s\"", ":a", "=", ".", ",", "(", ")", "[", "]",
              "{", "}", "|", ":", "?", "&", "*", "<", "\n"]
TOKENS_OPENERS = ["x", "=", ":\"", "\"", "'", ":'", "%w[", "%i(", "%q{", "#", "`", "<<~EOS", "/", "?", "#{", "a b", ":", "\n"]
JUNK = ["end", "(", ")", "[", "{", "}", ".", ",", "|", "=", "def", "\"", ":", "&.", "::", "do"]

_WORD = re.compile(r"[A-Za-z0-9_\"'@:?]$")
_WORD0 = re.compile(r"^[A-Za-z0-9_\"'@:?]")


def render(toks, variant):
    """variant 0: tokens separated by one space, file ends with newline;
    variant 1: compact (space only between word-like tokens), no trailing newline;
    variant 2: natural spacing (`m(1, x)`, `x = [1]`, `a.b`), file ends with newline."""
    if variant == 2:
        s = render(toks, 0)
        for a, b in ((" ( ", "("), ("( ", "("), (" )", ")"), (" , ", ", "), ("[ ", "["), (" ]", "]"), ("{ ", "{"),
                     (" }", "}"), (" . ", "."), ("| ", "|"), (" |", "|"), ("* ", "*"), ("do|", "do |")):
            s = s.replace(a, b)
        return s
    if variant == 0:
        out = []
        for t in toks:
            out.append(t)
        s = " ".join(out).replace(" \n ", "\n").replace("\n ", "\n").replace(" \n", "\n")
        if not s.endswith("\n"):
            s += "\n"
        return s
    s = ""
    for t in toks:
        if s and t != "\n" and not s.endswith("\n") and _WORD.search(s) and _WORD0.search(t):
            s += " "
        s += t
    while s.endswith("\n"):
        s = s[:-1]
    return s


def tla_set(xs):
    return "{" + ",".join(json.dumps(x) for x in xs) + "}"


def proggen(work, mode, stats, maxlen=0, stmts=0, depth=0, mut=0, simulate=None, tokens=None, cap=None, extra=None):
    """Run ProgGen and return the list of distinct token sequences (as tuples)."""
    seen = set()
    order = []

    def feed(line):
        d = json.loads(json.loads(line))
        # tokens handed over through the .cfg file keep their escapes literally (TLC's cfg parser does not unescape)
        t = tuple(x.replace('\\"', '"').replace("\\n", "\n") for x in d["t"])
        if t not in seen and (cap is None or len(order) < cap):
            seen.add(t)
            order.append(t)

    consts = {"MODE": json.dumps(mode), "TOKENS": tla_set(tokens or TOKENS_ALL), "MAXLEN": maxlen,
              "MAXSTMTS": stmts, "MAXDEPTH": depth, "MAXMUT": mut, "JUNK": tla_set(JUNK)}
    r = C.run_tlc(work, "ProgGen", "ProgGen.cfg", consts=consts, workers=1 if simulate else 4, timeout=3000,
                  stream=feed, simulate=simulate, heap="16g", extra=extra)
    if not r.ok:
        raise C.HarnessError("ProgGen failed: %s" % r.violation)
    stats["states"] += max(r.distinct, len(order))
    stats["transitions"] += max(r.generated, len(order))
    return order


def corpus_prefixes(rng, nfiles, every_line=True):
    """Line prefixes (and a few mid-line prefixes) of corpus programs."""
    files = C.corpus_files()
    rng.shuffle(files)
    out = []
    for f in files[:nfiles]:
        text = open(os.path.join(C.CORPUS, f)).read()
        lines = text.split("\n")
        for i in range(1, len(lines) + 1):
            out.append(("corpus:%s:%d" % (f, i), "\n".join(lines[:i])))          # no trailing newline
        for _ in range(3):
            k = rng.randrange(1, max(2, len(text)))
            out.append(("corpus:%s:@%d" % (f, k), text[:k]))
        # the file ends INSIDE a construct: right behind an opening delimiter of a literal, bracket, block or comment
        opens = [m.end() for m in _OPENERS.finditer(text)]
        for k in rng.sample(opens, min(len(opens), 10)):
            out.append(("corpus:%s:open@%d" % (f, k), text[:k]))
            out.append(("corpus:%s:open@%d+" % (f, k), text[:k + 3].split("\n")[0] if "\n" in text[k:k + 3] else text[:k + 3]))
    return out


_OPENERS = re.compile(r":\"|:'|%[wiqQWI]?[\[({<]|\"|'|`|#\{|#|\(|\[|\{|\||<<[~-]?[A-Z_]+|\?|&\.|\.|::|=>|->|\bdo\b|\bthen\b")


# ------------------------------------------------------------------------- oracles

LINE_PLAIN = re.compile(r"^(@?)t\.rb:::(\d+):::(.*)$")
LINE_SIG = re.compile(r"^%.*:::.*:::.*$")
LINE_EXT = re.compile(r"^\$.*:::.*$")


def parse_out(out, target="t.rb"):
    """Split stdout into parsed lines for TraceRun / the line-grammar clause."""
    lines = []
    for raw in out.split("\n"):
        if raw == "":
            continue
        m = C._DIAG.match(raw)
        if m and not raw.startswith(("%", "$")):
            lines.append({"kind": "h" if m.group(1) else "d", "file": m.group(2), "row": int(m.group(3)),
                          "msg": m.group(4)})
        elif raw.startswith("%") and raw.count(":::") >= 1:
            lines.append({"kind": "s", "file": "", "row": 0, "msg": raw})
        elif raw.startswith("$") and raw.count(":::") >= 1:
            lines.append({"kind": "x", "file": "", "row": 0, "msg": raw})
        elif raw.startswith("@") and raw.count(":::") >= 1:
            lines.append({"kind": "a", "file": "", "row": 0, "msg": raw})
        else:
            lines.append({"kind": "?", "file": "", "row": 0, "msg": raw})
    return lines


def trace_of(run_id, res, np_, modes, keep=("round", "step", "err", "mutation")):
    evs = [{"ev": "start", "id": run_id, "np": np_, "modes": sorted(modes)}]
    for e in res.get("events") or []:
        if e["ev"] in keep:
            evs.append(e)
    evs.append({"ev": "exit", "code": res.get("exit", -1), "panic": res.get("panic") or "",
                "hang": bool(res.hung), "lines": parse_out(res.get("out") or "")})
    return evs


def validate_traces(work, traces, stats, eof_budget=10000):
    """traces: list of event lists. Returns list of (position, run id, reason)."""
    if not traces:
        return []
    lines = []
    for t in traces:
        for e in t:
            lines.append(json.dumps(e))
    got = {}

    def feed(line):
        got["r"] = json.loads(json.loads(line))

    r = C.run_tlc(work, "MCTraceRun", "TraceRun.cfg", workers=1, timeout=3000, heap="16g",
                  consts={"EOFBUDGET": eof_budget}, files={"trace.ndjson": "\n".join(lines) + "\n"}, stream=feed)
    if not r.ok or "r" not in got:
        raise C.HarnessError("trace validation did not complete: %s\n%s" % (r.violation, r.raw[-1500:]))
    rep = got["r"]
    if rep["events"] != len(lines):
        raise C.HarnessError("TraceRun consumed %d of %d events" % (rep["events"], len(lines)))
    stats["states"] += r.distinct
    stats["transitions"] += r.generated
    stats["traces"] += len(traces)
    stats["trace_events"] += len(lines)
    return [tuple(b) for b in rep["bad"]]


def selftest_trace_binding(work, traces, stats):
    """Corrupt recorded traces in three ways; TraceRun must reject each (binding self-test)."""
    import copy
    base = None
    for t in traces:
        if any(e["ev"] == "err" and e.get("round") == "check" for e in t) and sum(1 for e in t if e["ev"] == "round") == 4:
            base = t
            break
    if base is None:
        return ["(no trace with a diagnostic available)"]
    done = []
    # 1. drop a recorded diagnostic (a removed hook / a lost error)
    t1 = [e for e in copy.deepcopy(base)]
    idx = max(i for i, e in enumerate(t1) if e["ev"] == "err" and e.get("round") == "check")
    del t1[idx]
    # 2. swap two rounds
    t2 = copy.deepcopy(base)
    for e in t2:
        if e.get("round") == "collect":
            e["round"] = "inference"
        elif e.get("round") == "inference":
            e["round"] = "collect"
    # 3. non-zero exit
    t3 = copy.deepcopy(base)
    t3[-1]["code"] = 2
    for name, t in (("dropped diagnostic event", t1), ("rounds swapped", t2), ("exit code 2", t3)):
        s2 = dict(states=0, transitions=0, traces=0, trace_events=0)
        bad = validate_traces(work, [t], s2)
        if not bad:
            raise C.HarnessError("binding self-test: corrupted trace (%s) was accepted" % name)
        done.append("%s -> rejected: %s" % (name, bad[0][2]))
    return done
