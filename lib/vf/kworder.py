"""C14, second universe: spec/MCKwOrder.tla - declarations with 2..N keyword parameters, calls with
2..N+1 keyword arguments (declared and undeclared names, one possibly of another type), every
permutation.  TLC checks on the model that neither the reference judgement nor the as-is binder
depends on the permutation; the harness replays every (declaration, call, permutation) into the
real binary twice:
  configured   the declaration is a method of a generated .ti-config class, one call per row;
  user-defined the declaration is a `def` in the program (one copy of the method per permutation,
               the parameters probed inside the body, the call probed), plain and with -i.
Outputs of a permutation must equal those of the written order (after removing the copy's index).
"""
import collections
import itertools
import json
import re

from . import common as C
from . import binder as B

BATCH = 250


def emit(work, stats, nkeys, anyfirst):
    cases = []
    r = C.run_tlc(work, "MCKwOrder", "KwOrder.cfg", workers=8, timeout=3000, heap="16g",
                  stream=lambda l: cases.append(json.loads(json.loads(l))),
                  consts={"NKEYS": nkeys, "EMIT": "TRUE", "ANYFIRST": "TRUE" if anyfirst else "FALSE"})
    if not r.ok:
        raise C.HarnessError("MCKwOrder: the model itself depends on keyword order: %s" % r.violation)
    stats["states"] += r.distinct
    stats["transitions"] += r.generated
    return cases


def perms_of(call, rng, cap):
    kw = [i for i, a in enumerate(call) if a["key"]]
    pos = [i for i, a in enumerate(call) if not a["key"]]
    allp = [list(p) for p in itertools.permutations(kw) if list(p) != kw]
    if len(allp) > cap:
        # always keep the reversal and the rotations, sample the rest
        keep = [kw[::-1]] + [kw[i:] + kw[:i] for i in range(1, len(kw))]
        rest = [p for p in allp if p not in keep]
        rng.shuffle(rest)
        allp = keep + rest[:cap - len(keep)]
    return [pos + p for p in allp]


def short(case):
    d = ", ".join("%s%s" % (p["kind"], ("/" + p["key"]) if p["key"] else "") for p in case["d"][0])
    c = ", ".join(((a["key"] + ":") if a["key"] else "") + a["ty"]["vs"][0]["c"][:3] for a in case["c"])
    return "decl(%s) call(%s)" % (d, c)


def shape_key(case):
    """abstract form of a failing case: kinds of the keyword parameters and which names the call passes"""
    declared = {p["key"]: p["kind"] for p in case["d"][0] if p["key"]}
    passed = [a["key"] for a in case["c"] if a["key"]]
    cls = sorted({("declared-" + declared[k]) if k in declared else "undeclared" for k in passed})
    missing = sorted(declared[k] for k in declared if k not in passed)
    return "%dkw[%s]%s" % (len(passed), "+".join(cls), ("/missing-" + "+".join(sorted(set(missing)))) if missing else "")


# ------------------------------------------------------------------ configured rendering

def configured(v, work, stats, cases, rng, cap, checked):
    decl_list, seen = [], {}
    for c in cases:
        k = B.decl_key(c["d"])
        if k not in seen:
            seen[k] = len(decl_list)
            decl_list.append(c["d"])
    cfg, names = B.build_config(work, decl_list, 0, name="cfg-kworder")
    cfgkey = C.cfg_key(cfg)
    rows, owner = [], []
    for ci, c in enumerate(cases):
        m = names[B.decl_key(c["d"])]
        rows.append(B.call_src(m, c["c"]))
        owner.append((ci, None))
        for p in perms_of(c["c"], rng, cap):
            rows.append(B.call_src(m, c["c"], order=p))
            owner.append((ci, p))
    jobs, meta = [], []
    for s in range(0, len(rows), BATCH):
        text, first, _ = B.program(rows[s:s + BATCH])
        jobs.append({"cfg": cfg, "cfgkey": cfgkey, "files": {"t.rb": text}, "args": ["t.rb"], "timeout": 120})
        meta.append((s, first))
    wr = C.Runner(work, "worker")
    try:
        results = wr.run_many(jobs)
    finally:
        wr.close()
    diag = [None] * len(rows)
    for (s, first), job, res in zip(meta, jobs, results):
        if res.hung or res.crashed or res.get("exit") != 0:
            raise C.HarnessError("keyword-order batch failed (%s %s)" % (res.get("cls"), res.get("site")))
        by_row = collections.defaultdict(list)
        for kind, f, row, msg in C.parse_lines(res["out"]):
            if kind == "d":
                by_row[row].append(msg)
        for k in range(len(rows[s:s + BATCH])):
            diag[s + k] = by_row.get(first + k, [])
        stats["runs"] += 1
    base = {}
    for i, (ci, p) in enumerate(owner):
        if p is None:
            base[ci] = i
    for i, (ci, p) in enumerate(owner):
        if p is None:
            continue
        checked["configured_permutations"] += 1
        if diag[i] == diag[base[ci]]:
            continue
        c = cases[ci]
        key = "kw-order:configured:" + shape_key(c)
        if v.seen(key):
            v.again(key)
            continue
        text, f1, _ = B.program([rows[base[ci]], rows[i]])
        job2 = {"cfg": cfg, "files": {"t.rb": text}, "args": ["t.rb"]}
        rr = C.confirm_alone(work, job2, runs=1)[0]
        d = collections.defaultdict(list)
        for kind, f, row, msg in C.parse_lines(rr.get("out") or ""):
            if kind == "d":
                d[row].append(msg)
        if d.get(f1, []) == d.get(f1 + 1, []):
            v.count("not_reproduced_alone")
            continue
        v.fail(key, "keyword order changes the output against a configured method %s: %r -> %r but %r -> %r" % (
            short(c), rows[base[ci]], d.get(f1, []), rows[i], d.get(f1 + 1, [])), C.job_files_for_replay(job2))


# ------------------------------------------------------------------ user-defined rendering

LIT = {"Integer": "1", "String": "\"s\""}


EXPR = {"lit": {"Integer": "1", "String": "\"s\""},
        "arith": {"Integer": "1 + 2", "String": "\"s\" + \"t\""},
        "call": {"Integer": "\"s\".length", "String": "1.to_s"},
        "not": {"Integer": "!hq_flag", "String": "!hq_flag"},
        "or": {"Integer": "hq_nil || 1", "String": "hq_nil || \"s\""}}


def user_program(case, perms, style="lit", keyrest=False):
    """one copy of the method per order of the keyword arguments (copy 0 = as written).
    style: how the keyword values are written (literal / arithmetic / call / negation / ||);
    keyrest: the method also takes **opts (undeclared keywords are collected there) and returns opts.values"""
    ov = case["d"][0]
    params, names = [], []
    npos = 0
    for p in ov:
        if p["kind"] == "req":
            params.append("a%d" % npos); names.append("a%d" % npos); npos += 1
        elif p["kind"] == "opt":
            params.append("a%d = 1" % npos); names.append("a%d" % npos); npos += 1
        elif p["kind"] == "key":
            params.append("%s:" % p["key"]); names.append(p["key"])
        else:
            params.append("%s: 1" % p["key"]); names.append(p["key"])
    if keyrest:
        params.append("**opts")
    pre = ["hq_flag = true", "hq_nil = nil"]
    lines = []
    block = None
    orders = [list(range(len(case["c"])))] + perms
    for j, order in enumerate(orders):
        start = len(lines)
        lines.append("def um%d(%s)" % (j, ", ".join(params)))
        for n in names:
            lines.append("  dbtp %s" % n)
        if keyrest:
            lines += ["  dbtp opts", "  dbtp opts.values", "  opts.values"]
        else:
            lines.append("  1")
        lines.append("end")
        args = []
        for i in order:
            a = case["c"][i]
            e = (EXPR[style] if a["key"] else EXPR["lit"])[a["ty"]["vs"][0]["c"]]
            args.append(("%s: %s" % (a["key"], e)) if a["key"] else e)
        lines.append("dbtp um%d(%s)" % (j, ", ".join(args)))
        block = len(lines) - start
    return "\n".join(pre + lines) + "\n", block, len(orders), len(pre)


_COPY = re.compile(r"\bum\d+\b")


def blocks_of(out, block, n, skip=0):
    """output lines grouped per method copy, rows made relative, the copy's index removed"""
    per = [[] for _ in range(n)]
    other = []
    for kind, f, row, msg in C.parse_lines(out):
        row -= skip
        if kind in ("d", "h") and 1 <= row <= block * n:
            j = (row - 1) // block
            per[j].append((kind, (row - 1) % block, _COPY.sub("um", msg)))
        else:
            other.append((kind, row, _COPY.sub("um", msg)))
    return [sorted(p) for p in per], other


def user_defined(v, work, stats, cases, rng, cap, checked, style="lit", keyrest=False):
    jobs, meta = [], []
    for ci, c in enumerate(cases):
        perms = perms_of(c["c"], rng, cap)
        text, block, n, skip = user_program(c, perms, style, keyrest)
        for args in (["t.rb"], ["t.rb", "-i"]):
            jobs.append({"files": {"t.rb": text}, "args": args})
            meta.append((ci, block, n, perms, skip))
    wr = C.Runner(work, "worker")
    try:
        results = wr.run_many(jobs)
    finally:
        wr.close()
    variant = "%s%s" % (style, "+keyrest" if keyrest else "")
    for (ci, block, n, perms, skip), job, res in zip(meta, jobs, results):
        c = cases[ci]
        if res.get("skipped"):
            v.count("skipped_jobs")
            continue
        if res.hung or res.crashed or res.get("exit") != 0:
            key = "kw-order:user-defined:crash-or-hang:%s@%s" % (res.get("cls"), res.get("site"))
            if not v.seen(key):
                v.fail(key, "analysis of a user-defined method with keyword parameters fails: %s" % short(c),
                       C.job_files_for_replay(job))
            else:
                v.again(key)
            continue
        stats["runs"] += 1
        per, _ = blocks_of(res["out"], block, n, skip)
        for j in range(1, n):
            checked["user_defined_permutations"] += 1
            if per[j] == per[0]:
                continue
            key = "kw-order:user-defined:" + ("" if variant == "lit" else variant + ":") + shape_key(c)
            if style == "or":
                # `k: n || 1` - the || evaluator hands the KeyValue under construction on: one mechanism, whatever the shape
                key = "Dev_OrValueInKeywordArgument"
            if v.seen(key):
                v.again(key)
                break
            rr = C.confirm_alone(work, job, runs=1)[0]
            per2, _ = blocks_of(rr.get("out") or "", block, n, skip)
            if per2[j] == per2[0]:
                v.count("not_reproduced_alone")
                continue
            diff = [x for x in per2[j] if x not in per2[0]] + [x for x in per2[0] if x not in per2[j]]
            v.fail(key, "keyword order changes the output against a user-defined method %s (%s): order %s differs in %r" % (
                short(c), " ".join(job["args"]), perms[j - 1], diff[:3]), C.job_files_for_replay(job))
            break


def run(v, work, stats, tier, checked):
    rng = C.tier_rng(tier, 14)
    if tier == "quick":
        cases = emit(work, stats, 3, False)
        cap = 24
        conf_cases, user_cases = cases, cases
    else:
        cases = emit(work, stats, 4, True)
        cap = 30
        rng.shuffle(cases)
        conf_cases, user_cases = cases[:40000], cases[:12000]
    configured(v, work, stats, conf_cases, rng, cap, checked)
    user_defined(v, work, stats, user_cases, rng, cap, checked)
    # the same against methods that also take **opts, and with keyword values written as expressions
    nvar = 800 if tier == "quick" else 5000
    for style, keyrest in (("lit", True), ("arith", False), ("call", True), ("not", False), ("or", False)):
        sub = rng.sample(user_cases, min(nvar, len(user_cases)))
        user_defined(v, work, stats, sub, rng, min(cap, 6), checked, style, keyrest)
    return {"keyword_universe_cases": len(cases), "configured_cases": len(conf_cases), "user_defined_cases": len(user_cases),
            "permutation_cap_per_call": cap}
