"""C07 / C08 / C14: one execution plan over spec/Binder.tla cases, three verdicts.

C07: MustFail(decls, call)  => ti prints a diagnostic on the call's row.
C08: MustPass(decls, call)  => ti prints no diagnostic on the call's row (homogeneous batches, so no
     earlier error can interfere).
C14: every permutation of the keyword arguments of a call gives the same output.
"""
import collections
import itertools
import json

from . import common as C
from . import binder as B

BATCH = 250


def emit_cases(work, stats, maxparams, maxargs, rich, overloads, anyret=False):
    cases = []

    def feed(line):
        cases.append(json.loads(json.loads(line)))

    r = C.run_tlc(work, "MCBinder", "Binder_emit.cfg", workers=1, timeout=3000, stream=feed, heap="16g",
                  consts={"MAXPARAMS": maxparams, "MAXARGS": maxargs, "RICH": "TRUE" if rich else "FALSE",
                          "OVERLOADS": "TRUE" if overloads else "FALSE", "EMIT": "TRUE", "EXTRA": "",
                          "ANYRET": "TRUE" if anyret else "FALSE"})
    if not r.ok:
        raise C.HarnessError("Binder model violates one of its structural invariants: %s" % r.violation)
    if len(cases) != r.distinct:
        raise C.HarnessError("TLC emitted %d cases for %d states" % (len(cases), r.distinct))
    stats["states"] += r.distinct
    stats["transitions"] += r.generated
    return cases


def expect_deviation(work, stats, inv, maxparams=2, maxargs=2, rich=True):
    """TLC must find a counterexample to `inv` on the as-is binder (non-vacuity of the comparison)."""
    r = C.run_tlc(work, "MCBinder", "Binder_emit.cfg", workers=4, timeout=1200,
                  consts={"MAXPARAMS": maxparams, "MAXARGS": maxargs, "RICH": "TRUE" if rich else "FALSE",
                          "OVERLOADS": "FALSE", "EMIT": "FALSE", "EXTRA": inv, "ANYRET": "FALSE"})
    stats["states"] += r.distinct
    stats["transitions"] += r.generated
    return not r.ok


def shape(case):
    def ty(t):
        return "U" if t["k"] == "any" else "|".join(sorted(v["c"] for v in t["vs"]))
    ds = []
    for ov in case["d"]:
        ds.append("(" + ", ".join("%s%s:%s" % (p["kind"], ("/" + p["key"]) if p["key"] else "", ty(p["ty"])) for p in ov) + ")")
    cs = ", ".join("%s%s" % ((a["key"] + ":") if a["key"] else "", ty(a["ty"])) for a in case["c"])
    return "decl%s call(%s)" % (" | ".join(ds), cs)


def bound_pairs(ov, call):
    """Ruby binding of a call to one declaration (canonical order): list of (param, arg)."""
    pos = [p for p in ov if p["kind"] in ("req", "opt", "rest")]
    pa = [a for a in call if not a["key"]]
    r = sum(1 for p in pos if p["kind"] == "req")
    o = sum(1 for p in pos if p["kind"] == "opt")
    out = []
    for j, a in enumerate(pa, 1):
        if j <= r + o and j <= len(pos) and pos[j - 1]["kind"] != "rest":
            out.append((pos[j - 1], a))
        elif any(p["kind"] == "rest" for p in pos):
            out.append(([p for p in pos if p["kind"] == "rest"][0], a))
    for a in call:
        if a["key"]:
            for p in ov:
                if p["kind"] in ("key", "optkey") and p["key"] == a["key"]:
                    out.append((p, a))
    return out


def rejects(p, a):
    if p["k"] != "t" or a["k"] != "t":
        return False
    ps = {(v["tt"], v["c"]) for v in p["vs"]}
    return all((v["tt"], v["c"]) not in ps for v in a["vs"]) and len(a["vs"]) > 0


def ty_sig(t):
    return (t["k"], tuple(sorted((v["tt"], v["c"]) for v in t["vs"])))


def too_many(ov, call):
    """more positional arguments than a declaration without rest / keyword parameters can take"""
    if any(p["kind"] in ("rest", "key", "optkey") for p in ov) or any(a["key"] for a in call):
        return False
    return len(call) > len(ov)


def deviation_name(prop, case):
    """Name of the known deviation of the as-is binder that explains a C07 / C08 disagreement."""
    ov = case["d"][0]
    pairs = bound_pairs(ov, case["c"])
    if len(case["d"]) > 1:
        # overloads: keyword parameters of the same name share one slot of the frame table (the declaration loaded
        # last decides the type of `k:` for every overload)
        keyed = [{p["key"]: (ty_sig(p["ty"]), p["kind"]) for p in d if p["key"]} for d in case["d"]]
        clash = any(k in keyed[1] and keyed[1][k] != t for k, t in keyed[0].items())
        if prop == "C08" and clash:
            return "Dev_OverloadKeywordParamsShareSlot"
        if prop == "C07":
            for d in case["d"]:
                if any(p["kind"] == "rest" and rejects(p["ty"], a["ty"]) for p, a in bound_pairs(d, case["c"])):
                    return "Dev_RestArgsNotTypeChecked"
    if prop == "C07":
        if case.get("anyret") and "AnyReturn" in case["path"] and too_many(ov, case["c"]):
            return "Dev_UntypedReturnSkipsTooMany"
        if any(p["kind"] == "rest" and rejects(p["ty"], a["ty"]) for p, a in pairs):
            return "Dev_RestArgsNotTypeChecked"
        for p, a in pairs:
            if rejects(p["ty"], a["ty"]):
                ptags = {v["tt"] for v in p["ty"]["vs"]}
                atags = {v["tt"] for v in a["ty"]["vs"]}
                if "OBJECT" in ptags and "OBJECT" in atags and (p["ty"]["u"] or a["ty"]["u"]):
                    return "Dev_UnionMatchesObjectByKind"
        return "unnamed-C07:" + "/".join(case["path"])
    # C08
    for p, a in pairs:
        if p["ty"]["k"] == "t" and a["ty"]["k"] == "t" and p["ty"]["u"] and a["ty"]["u"]:
            ps = {(v["tt"], v["c"]) for v in p["ty"]["vs"]}
            as_ = {(v["tt"], v["c"]) for v in a["ty"]["vs"]}
            if as_ < ps:
                return "Dev_UnionSubsetRejected"
    return "unnamed-C08:%s:%s" % (case["asis"], "/".join(case["path"]))


def run_cases(work, cases, stats, notation=0, tag="b"):
    """Replay cases into the real code. Returns list of per-case observations:
    {diag: [msgs], binds: [events], err: harness-problem or ''}"""
    decl_list, seen = [], {}
    for c in cases:
        k = B.decl_key(c["d"])
        if k not in seen:
            seen[k] = len(decl_list)
            decl_list.append(c["d"])
    cfg, names = B.build_config(work, decl_list, notation, name="cfg-%s" % tag, anyret=bool(cases and cases[0].get("anyret")))
    cfgkey = C.cfg_key(cfg)
    groups = collections.OrderedDict((("mf", []), ("mp", []), ("un", [])))
    for i, c in enumerate(cases):
        groups["mf" if c["mf"] else "mp" if c["mp"] else "un"].append(i)
    jobs, meta = [], []
    for g, idxs in groups.items():
        for s in range(0, len(idxs), BATCH):
            part = idxs[s:s + BATCH]
            rows = [B.call_src(names[B.decl_key(cases[i]["d"])], cases[i]["c"]) for i in part]
            text, first, probes = B.program(rows)
            jobs.append({"cfg": cfg, "cfgkey": cfgkey, "files": {"t.rb": text}, "args": ["t.rb"], "trace": True, "timeout": 120})
            meta.append((part, first, probes, g))
    wr = C.Runner(work, "worker")
    try:
        results = wr.run_many(jobs)
    finally:
        wr.close()
    obs = [None] * len(cases)
    for (part, first, probes, g), job, res in zip(meta, jobs, results):
        if res.hung or res.crashed or res.get("exit") != 0:
            raise C.HarnessError("batch run failed (%s %s): %r" % (res.get("cls"), res.get("site"), (res.get("out") or "")[:200]))
        by_row = collections.defaultdict(list)
        for kind, f, row, msg in C.parse_lines(res["out"]):
            if kind == "d":
                by_row[row].append(msg)
        for prow, (var, expect) in probes.items():
            got = by_row.get(prow, [None])[0]
            if got != expect:
                raise C.HarnessError("preamble probe %s: expected %s, ti says %s" % (var, expect, got))
        binds = collections.defaultdict(list)
        for e in res.get("events") or []:
            if e["ev"] == "bind" and e["round"] == "check":
                binds[e["row"]].append(e)
        for k, i in enumerate(part):
            row = first + k
            obs[i] = {"diag": by_row.get(row, []), "binds": binds.get(row, []), "row": row, "job": job}
        stats["runs"] += 1
        stats["rows"] += len(part)
    return obs, names


def observed_result(o):
    if not o["diag"]:
        return "ok"
    return B.classify_msg(o["diag"][0])


def run(prop, tier, work):
    v = C.Verdict(prop, tier, work)
    stats = dict(states=0, transitions=0, runs=0, rows=0)
    if tier == "quick":
        universes = [dict(maxparams=2, maxargs=2, rich=False, overloads=False)]
        if prop in ("C07", "C08"):
            universes.append(dict(maxparams=1, maxargs=2, rich=False, overloads=False, anyret=True))
            universes.append(dict(maxparams=1, maxargs=1, rich=False, overloads=True))      # the overload fallback
    else:
        universes = [dict(maxparams=2, maxargs=2, rich=True, overloads=False),
                     dict(maxparams=1, maxargs=2, rich=False, overloads=True),
                     dict(maxparams=2, maxargs=3, rich=False, overloads=False)]
        if prop in ("C07", "C08"):
            universes.append(dict(maxparams=2, maxargs=3, rich=False, overloads=False, anyret=True))
    selftests = []
    for inv in ("Sound",):
        if not expect_deviation(work, stats, inv):
            raise C.HarnessError("self-test: the as-is binder satisfies %s in the model - comparison is vacuous" % inv)
        selftests.append("as-is binder violates %s in the model (documents the C07 deviations)" % inv)

    drift = 0
    bound = 0
    checked = collections.Counter()
    for u in universes:
        cases = emit_cases(work, stats, **u)
        if prop == "C14":
            cases = [c for c in cases if sum(1 for a in c["c"] if a["key"]) >= 2]
        obs, names = run_cases(work, cases, stats, tag="u%d" % universes.index(u))
        extra_jobs = []
        for c, o in zip(cases, obs):
            got = observed_result(o)
            # binding: the bind event must show the declaration and arguments that were intended
            if o["binds"]:
                ev = o["binds"][0]
                why = B.event_matches_case(ev, c["d"][0], c["c"]) if not any(p["kind"] == "rest" for p in c["d"][0]) else ""
                if why and len(c["d"]) > 1:
                    # with overloads ti may bind against the declarations in another order: some event must show some
                    # declaration of the case exactly as written
                    why = "" if any(not B.event_matches_case(e2, ov, c["c"]) for e2 in o["binds"] for ov in c["d"]
                                    if not any(p["kind"] == "rest" for p in ov)) else why
                if why:
                    raise C.HarnessError("concretisation is not what ti analysed (%s): %s" % (shape(c), why))
                bound += 1
            if (got == "ok") != (c["asis"] == "ok") or (got != "ok" and got != c["asis"] and got != "other"):
                drift += 1
                if len(v.notes) < 8:
                    v.notes.append("model-drift: %s as-is %s observed %s %r" % (shape(c), c["asis"], got, o["diag"][:1]))
            predicted = (got == "ok") == (c["asis"] == "ok")
            if prop == "C07" and c["mf"]:
                checked["mustfail"] += 1
                if got == "ok":
                    name = deviation_name("C07", c)
                    key = name if predicted else "unpredicted:C07:" + shape(c)
                    if not predicted or not name.startswith("Dev_"):
                        key = "unexplained-missed-error:" + shape(c)
                    report(v, work, "C07", key, c, o, names, "certain failure not reported")
            if prop == "C08" and c["mp"]:
                checked["mustpass"] += 1
                if got != "ok":
                    name = deviation_name("C08", c)
                    key = name if (predicted and name.startswith("Dev_")) else "unexplained-false-alarm:" + shape(c)
                    report(v, work, "C08", key, c, o, names, "certain acceptance reported: %r" % o["diag"][:1])
        if prop == "C14":
            check_kw_order(v, work, stats, cases, names, obs, checked)
    kwinfo = None
    if prop == "C14":
        from . import kworder
        kwinfo = kworder.run(v, work, stats, tier, checked)
    recvinfo = None
    if prop in ("C07", "C08"):
        from . import receivers
        recvinfo = receivers.run(v, work, stats, prop, checked)
    sweepinfo = None
    if prop in ("C07", "C08"):
        sweepinfo = config_sweep(work, stats, v, prop, tier)
    corpus = None
    if prop in ("C07", "C08"):
        corpus = corpus_bind_validation(work, stats, v, prop, 150 if tier == "quick" else 585)
        drift += corpus["asis_disagreements"]
    if drift:
        print("MODEL-DRIFT property=%s %d cases where the real binder and the as-is model disagree" % (prop, drift))
    for c in cases[:3]:
        v.sample({"case": shape(c), "as_is": c["asis"], "path": c["path"], "must_pass": c["mp"], "must_fail": c["mf"]})
    cov = {"states": stats["states"], "transitions": stats["transitions"],
           "traces_validated_against_impl": bound, "real_runs": stats["runs"], "call_rows": stats["rows"],
           "judged": dict(checked), "model_drift_cases": drift, "selftests": selftests, "notes": v.notes,
           "universes": universes, "exhaustive": True, "keyword_order_universe": kwinfo, "receiver_universe": recvinfo, "corpus_bind_events": corpus, "shipped_config_sweep": sweepinfo,
           "rule": "every (declaration, call) of the bounded universe enumerated by TLC; one source row per case in a "
                   "generated configuration; the bind event of each row must show the intended declaration and arguments"}
    return v.finish("model_checking", cov, assumptions=[
        "a case is judged only when the reference semantics decides it (MustFail / MustPass); the rest is unspecified",
        "diagnostics are attributed to calls by row; batches are homogeneous (all MustFail / all MustPass / unspecified)"])


_reported = set()


def report(v, work, prop, key, case, o, names, what):
    if key in v.known:
        v.known_hit(key)
        return
    if key in _reported:
        v.count("repeat_of_reported_key")
        return
    _reported.add(key)
    rows = [B.call_src(names[B.decl_key(case["d"])], case["c"])]
    text, first, probes = B.program(rows)
    # confirm alone, black-box
    job = {"cfg": o["job"]["cfg"], "files": {"t.rb": text}, "args": ["t.rb"]}
    rr = C.confirm_alone(work, job, runs=1)[0]
    has = any(k == "d" and row == first for k, f, row, m in C.parse_lines(rr.get("out") or ""))
    if (prop == "C07" and has) or (prop == "C08" and not has):
        v.count("not_reproduced_alone")
        return
    v.fail(key, "%s: %s [as-is model: %s via %s]" % (what, shape(case), case["asis"], "/".join(case["path"])),
           C.job_files_for_replay(job), detail={"case": case, "alone_out": rr.get("out")})


def check_kw_order(v, work, stats, cases, names, obs, checked):
    """C14: every permutation of the keyword arguments, each run as its own row."""
    jobs, meta = [], []
    rows, owners = [], []
    for ci, c in enumerate(cases):
        kw = [i for i, a in enumerate(c["c"]) if a["key"]]
        pos = [i for i, a in enumerate(c["c"]) if not a["key"]]
        for perm in itertools.permutations(kw):
            if list(perm) == kw:
                continue
            rows.append(B.call_src(names[B.decl_key(c["d"])], c["c"], order=pos + list(perm)))
            owners.append(ci)
    cfg = obs[0]["job"]["cfg"] if obs else None
    for s in range(0, len(rows), BATCH):
        text, first, probes = B.program(rows[s:s + BATCH])
        jobs.append({"cfg": cfg, "cfgkey": obs[0]["job"]["cfgkey"], "files": {"t.rb": text}, "args": ["t.rb"], "timeout": 120})
        meta.append((s, first))
    wr = C.Runner(work, "worker")
    try:
        results = wr.run_many(jobs)
    finally:
        wr.close()
    for (s, first), job, res in zip(meta, jobs, results):
        if res.hung or res.crashed:
            raise C.HarnessError("permutation batch failed")
        by_row = collections.defaultdict(list)
        for kind, f, row, msg in C.parse_lines(res["out"]):
            if kind == "d":
                by_row[row].append(msg)
        for k in range(len(rows[s:s + BATCH])):
            ci = owners[s + k]
            checked["permutations"] += 1
            a, b = obs[ci]["diag"], by_row.get(first + k, [])
            if a != b:
                c = cases[ci]
                base_row = B.call_src(names[B.decl_key(c["d"])], c["c"])
                text, f1, _ = B.program([base_row, rows[s + k]])
                job2 = {"cfg": cfg, "files": {"t.rb": text}, "args": ["t.rb"]}
                rr = C.confirm_alone(work, job2, runs=1)[0]
                d = collections.defaultdict(list)
                for kind, f, row, msg in C.parse_lines(rr.get("out") or ""):
                    if kind == "d":
                        d[row].append(msg)
                if d.get(f1, []) == d.get(f1 + 1, []):
                    v.count("not_reproduced_alone")
                    continue
                v.fail("kw-order:" + shape(c), "keyword order changes the output: %r -> %r vs %r -> %r" % (
                    base_row, d.get(f1, []), rows[s + k], d.get(f1 + 1, [])), C.job_files_for_replay(job2))
        stats["runs"] += 1


def event_to_case(e):
    """bind event -> (trace record, case dict) or None when outside the modelled fragment"""
    if e.get("round") != "check":
        return None
    if e.get("class") in ("Untyped", "untyped", "Unknown", "", None):
        return None          # a call on a receiver of unknown class: there is no declaration to judge against
    decl = []
    keys = set()
    for d in e.get("decl") or []:
        if not d.get("builtin") and not d["name"].startswith("*"):
            return None
        name = d["name"]
        if name.startswith("**"):
            return None
        t = B.abstract_type(d["t"])
        if any(tt in ("KV", "SPECIAL", "NIL-POINTER", "DEEP") for tt, _ in t[2]):
            return None
        if name.startswith("*"):
            kind, key = "rest", ""
        elif name.endswith(":") and len(name) >= 2:
            kind, key = ("optkey" if d.get("def") else "key"), name[:-1]
            keys.add(key)
        else:
            kind, key = ("opt" if d.get("def") else "req"), ""
        decl.append({"kind": kind, "key": key, "ty": B.spec_type_from_key(t)})
    args = []
    for a in e.get("args") or []:
        t = B.abstract_type(a["t"])
        if any(tt in ("KV", "SPECIAL", "NIL-POINTER", "DEEP") for tt, _ in t[2]):
            return None
        key = a["key"][:-1] if a["key"] else ""
        if key:
            keys.add(key)
        args.append({"key": key, "ty": B.spec_type_from_key(t)})
    if len(keys) > 16:
        return None
    ren = {k: "k%02d" % (i + 1) for i, k in enumerate(sorted(k + ":" for k in keys))}
    ren = {k[:-1]: v_ for k, v_ in ren.items()}
    for p in decl:
        if p["key"]:
            p["key"] = ren[p["key"]]
    for a in args:
        if a["key"]:
            a["key"] = ren[a["key"]]
    res = "ok" if not e.get("res") else B.classify_msg(e["res"])
    if res == "other":
        return None
    rec = {"id": "%s:%s:%s.%s" % (e.get("file"), e.get("row"), e.get("class"), e.get("meth")), "decl": decl, "args": args,
           "res": res, "anyret": bool(e.get("anyret")), "single": e.get("novl", 0) == 0}
    return rec


def random_fixed():
    import random
    return random.Random(7)


def corpus_bind_validation(work, stats, v, prop, nfiles):
    import os
    files = C.corpus_files()
    rng = random_fixed()
    rng.shuffle(files)
    jobs = [{"files": {"t.rb": open(os.path.join(C.CORPUS, f)).read()}, "args": ["t.rb"], "trace": True, "tag": f}
            for f in files[:nfiles]]
    wr = C.Runner(work, "worker")
    try:
        results = wr.run_many(jobs)
    finally:
        wr.close()
    recs, skipped = [], 0
    for job, res in zip(jobs, results):
        for e in res.get("events") or []:
            if e["ev"] != "bind" or e.get("round") != "check":
                continue
            rec = event_to_case(e)
            if rec is None:
                skipped += 1
                continue
            rec["id"] = job["tag"] + ":" + rec["id"]
            recs.append(rec)
    if not recs:
        raise C.HarnessError("no bind events recorded from the corpus (hook missing?)")
    got = {}

    def feed(line):
        got["r"] = json.loads(json.loads(line))

    r = C.run_tlc(work, "TraceBinder", "TraceBinder.cfg", workers=1, timeout=3000, heap="16g", stream=feed,
                  files={"binds.ndjson": "\n".join(json.dumps(x) for x in recs) + "\n"})
    if not r.ok or "r" not in got:
        raise C.HarnessError("bind-trace validation did not complete: %s %s" % (r.violation, r.raw[-1200:]))
    rep = got["r"]
    if rep["events"] != len(recs):
        raise C.HarnessError("TraceBinder consumed %d of %d events" % (rep["events"], len(recs)))
    stats["states"] += r.distinct
    stats["transitions"] += r.generated
    byid = {x["id"]: x for x in recs}
    for b in rep["bad"][:6]:
        v.notes.append("corpus bind event %s: as-is model says %s, ti said %s" % (b[0], b[1], b[2]))
    lst = rep["mfmiss"] if prop == "C07" else rep["mpalarm"]
    for eid in lst:
        x = byid[eid]
        case = {"d": [x["decl"]], "c": x["args"], "asis": x["res"], "path": ["corpus"]}
        name = deviation_name(prop, case)
        key = name if name.startswith("Dev_") else ("corpus-%s:%s" % (prop, shape(case)))
        v.fail(key, "corpus call %s: %s but ti said %s" % (eid, "certain failure" if prop == "C07" else "certain acceptance", x["res"]),
               {"event.json": json.dumps(x, indent=1)})
    return {"events_validated": len(recs), "events_outside_fragment": skipped, "agree_with_asis": rep["agree"],
            "asis_disagreements": len(rep["bad"]), "mustfail_but_ok": len(rep["mfmiss"]), "mustpass_but_error": len(rep["mpalarm"])}


def replay(prop, work, path):
    import os
    inp = os.path.join(path, "input")
    if not os.path.isdir(inp):
        print("nothing to replay (event-level finding): see %s" % path)
        return 0
    cfgd = work.sub("rcfg")
    for f in os.listdir(C.SHIPPED_CFG):
        os.symlink(os.path.join(C.SHIPPED_CFG, f), os.path.join(cfgd, f))
    cd = os.path.join(inp, ".ti-config")
    if os.path.isdir(cd):
        for f in os.listdir(cd):
            if not os.path.exists(os.path.join(cfgd, f)):
                os.symlink(os.path.join(cd, f), os.path.join(cfgd, f))
    files = {n: open(os.path.join(inp, n)).read() for n in os.listdir(inp) if n.endswith(".rb")}
    rr = C.confirm_alone(work, {"cfg": cfgd, "files": files, "args": ["t.rb"]}, runs=1)[0]
    print(rr.get("out"))
    return 0


def config_sweep(work, stats, v, prop, tier):
    """every understood instance method of the shipped configuration, judged by TLC, replayed into ti"""
    from . import confsweep as S
    out = S.sweep(work, stats, C.SHIPPED_CFG)
    judged = 0
    for o in out:
        if prop == "C07" and o["mf"]:
            judged += 1
            if o["diag"]:
                continue
            if o["failed"]:
                key = "crash-instead-of-diagnostic:%s" % RC_short(o["failure"])
            elif o["asis"] != "ok":
                key = "Dev_StrategyIgnoresDeclaration:%s#%s" % (o["cls"], o["meth"])
            else:
                key = "sweep-missed-error:%s#%s/%s" % (o["cls"], o["meth"], o["kind"])
            what = "shipped config, %s#%s, %s: `%s` certainly fails but ti reports nothing on its row%s" % (
                o["cls"], o["meth"], o["kind"], o["src"], (" (" + o["failure"] + ")") if o["failed"] else "")
        elif prop == "C08" and o["mp"]:
            judged += 1
            if o["diag"] == []:
                continue
            if o["failed"]:
                key = "crash-on-accepted-call:%s" % RC_short(o["failure"])
            elif o["asis"] == "ok":
                key = "Dev_StrategyOwnCheck:%s#%s" % (o["cls"], o["meth"])
            else:
                key = "sweep-false-alarm:%s#%s/%s" % (o["cls"], o["meth"], o["kind"])
            what = "shipped config, %s#%s, %s: `%s` is certainly accepted but ti says %r" % (
                o["cls"], o["meth"], o["kind"], o["src"], o["diag"])
        else:
            continue
        if key in v.known or key in _reported:
            if key in v.known:
                v.known_hit(key)
            else:
                v.count("repeat_of_reported_key")
            continue
        job, rr, diag = S.run_alone(work, o)
        crashed = bool(rr.get("panic")) or rr.get("timeout")
        still = (prop == "C07" and not diag) or (prop == "C08" and (diag or crashed))
        if not still:
            v.count("not_reproduced_alone")
            continue
        _reported.add(key)
        v.fail(key, what, C.job_files_for_replay(job), detail={"alone_out": rr.get("out"), "stderr": (rr.get("stderr") or "")[:400]})
    return {"methods": stats.get("sweep_methods"), "cases": stats.get("sweep_cases"), "judged_for_this_property": judged,
            "methods_not_understood": stats.get("sweep_methods_not_understood")}


def RC_short(f):
    return (f or "?").replace("ti/", "").replace("(*", "").replace(")", "")
