"""Shared machinery for the ruby-ti model-based checks.

Everything a check needs that is not property specific: locating things, building
`ti` (plain and verif-tagged) from /repo's working tree, running it (black-box
process per run, or the in-process worker built from the verif hooks), running TLC,
known-findings bookkeeping, verdict printing and evidence files.
"""
import hashlib
import json
import os
import queue
import select
import random
import re
import shutil
import subprocess
import sys
import threading
import time

ROOT = os.environ.get("VERIF_ROOT") or os.path.dirname(os.path.dirname(os.path.dirname(os.path.abspath(__file__))))
REPO = os.environ.get("VERIF_REPO", "/repo")
SPEC = os.path.join(ROOT, "spec")
EVID = os.path.join(ROOT, "evidence")
KNOWN = os.path.join(ROOT, "known_findings.json")
SHIPPED_CFG = os.path.join(REPO, "test", ".ti-config")
CORPUS = os.path.join(REPO, "test")

EXIT_OK, EXIT_VIOLATION, EXIT_HARNESS = 0, 1, 2


class HarnessError(Exception):
    """Trouble in the machinery itself (never a property verdict)."""


def go_env():
    env = dict(os.environ)
    env["GOFLAGS"] = "-mod=mod"
    env["GOPROXY"] = "off"
    env.pop("GOSUMDB", None)
    env.pop("GOTOOLCHAIN", None)
    env.setdefault("HOME", "/root")
    return env


def seed():
    try:
        return int(os.environ.get("VERIF_SEED", "1"))
    except ValueError:
        return 1


def log(*a):
    print("[vf]", *a, file=sys.stderr, flush=True)


# --------------------------------------------------------------------------- work dirs

class Work:
    """A scratch directory under /verif/.work, removed on close."""

    def __init__(self, prop, tier):
        self.prop, self.tier = prop, tier
        self.dir = os.path.join(ROOT, ".work", "%s-%s-%d" % (prop, tier, os.getpid()))
        shutil.rmtree(self.dir, ignore_errors=True)
        os.makedirs(self.dir)
        self.n = 0
        self.t0 = time.time()
        self._bins = None
        self.fastdir = None

    def sub(self, name=None):
        self.n += 1
        d = os.path.join(self.dir, name or ("d%d" % self.n))
        os.makedirs(d, exist_ok=True)
        return d

    def close(self):
        shutil.rmtree(self.dir, ignore_errors=True)
        if self.fastdir:
            shutil.rmtree(self.fastdir, ignore_errors=True)

    def fast(self, name):
        """A scratch directory on tmpfs when there is one (the disk file system serialises
        directory operations across processes in this sandbox); removed on close."""
        if self.fastdir is None:
            base = "/dev/shm" if os.path.isdir("/dev/shm") and os.access("/dev/shm", os.W_OK) else self.dir
            self.fastdir = os.path.join(base, "verif-%s-%s-%d" % (self.prop, self.tier, os.getpid()))
            shutil.rmtree(self.fastdir, ignore_errors=True)
            os.makedirs(self.fastdir)
        d = os.path.join(self.fastdir, name)
        os.makedirs(d, exist_ok=True)
        return d

    def bins(self):
        if self._bins is None:
            self._bins = build_ti(self.sub("bin"))
        return self._bins


def build_ti(outdir):
    """Build plain and verif-tagged ti from /repo's current working tree."""
    plain = os.path.join(outdir, "ti")
    verif = os.path.join(outdir, "ti-verif")
    for out, tags in ((plain, []), (verif, ["-tags", "verif"])):
        cmd = ["go", "build"] + tags + ["-o", out, "."]
        r = subprocess.run(cmd, cwd=REPO, env=go_env(), capture_output=True, text=True)
        if r.returncode != 0:
            raise HarnessError("go build failed (%s): %s" % (" ".join(cmd), r.stderr[-2000:]))
    return plain, verif


def build_tool(outdir, pkg, name):
    out = os.path.join(outdir, name)
    r = subprocess.run(["go", "build", "-o", out, pkg], cwd=REPO, env=go_env(), capture_output=True, text=True)
    if r.returncode != 0:
        raise HarnessError("go build %s failed: %s" % (pkg, r.stderr[-2000:]))
    return out


# --------------------------------------------------------------------------- configs

def materialise_config(dirpath, files):
    """files: {filename: python-object or str} -> written under dirpath (a .ti-config dir)."""
    os.makedirs(dirpath, exist_ok=True)
    for name, content in files.items():
        with open(os.path.join(dirpath, name), "w") as f:
            if isinstance(content, str):
                f.write(content)
            else:
                json.dump(content, f, indent=1)
    return dirpath


def cfg_key(cfgdir):
    """Identity of a config directory: digest of names and contents."""
    h = hashlib.sha1()
    for n in sorted(os.listdir(cfgdir)):
        p = os.path.join(cfgdir, n)
        if os.path.isfile(p):
            h.update(n.encode())
            with open(p, "rb") as f:
                h.update(f.read())
    return h.hexdigest()[:16]


# --------------------------------------------------------------------------- running ti

class Result(dict):
    """out, exit, timeout(bool), panic, cls, site, evalsite, lexsite, events, died(bool), stderr"""

    def __getattr__(self, k):
        try:
            return self[k]
        except KeyError:
            return None

    @property
    def hung(self):
        return bool(self.get("timeout")) or str(self.get("cls") or "").startswith("hang:")

    @property
    def crashed(self):
        return bool(self.get("panic")) and not self.hung

    def hang_site(self):
        if self.get("eof_streak", 0) > 1000 and self.get("lexsite"):
            return self["lexsite"]
        return self.get("evalsite") or self.get("site") or "?"

    def crash_site(self):
        return "%s@%s" % (self.get("cls") or "panic", self.get("site") or "?")


def _prepare_slot(slot, job):
    """Lay the job's files out in a slot directory."""
    cfg = job.get("cfg") or SHIPPED_CFG
    keep = set(job["files"]) | {".ti-config"}
    for n in os.listdir(slot):
        if n in keep and os.path.dirname(n) == "":
            continue
        p = os.path.join(slot, n)
        if os.path.islink(p) or os.path.isfile(p):
            os.unlink(p)
        else:
            shutil.rmtree(p)
    link = os.path.join(slot, ".ti-config")
    try:
        cur = os.readlink(link)
    except OSError:
        cur = None
    if cur != cfg:
        if cur is not None:
            os.unlink(link)
        os.symlink(cfg, link)
    for name, content in job["files"].items():
        p = os.path.join(slot, name)
        if os.path.dirname(name):
            os.makedirs(os.path.dirname(p), exist_ok=True)
        mode = "wb" if isinstance(content, bytes) else "w"
        with open(p, mode) as f:
            f.write(content)
    if job.get("preload") is not None:
        with open(os.path.join(slot, ".ti-loader.json"), "w") as f:
            json.dump({"preload": job["preload"]}, f)


_GO_PANIC = re.compile(r"^(panic: |fatal error: |goroutine \d+ \[)", re.M)


def run_blackbox(ti, slot, job, timeout=20):
    _prepare_slot(slot, job)
    env = dict(os.environ)
    env["GOMAXPROCS"] = str(job.get("gomaxprocs", 2))
    if job.get("env"):
        env.update(job["env"])
    t0 = time.time()
    try:
        p = subprocess.run([ti] + job["args"], cwd=slot, env=env, capture_output=True, timeout=timeout)
        out = p.stdout.decode("utf-8", "replace")
        err = p.stderr.decode("utf-8", "replace")
        res = Result(out=out, exit=p.returncode, stderr=err, wall=time.time() - t0)
    except subprocess.TimeoutExpired:
        return Result(out="", exit=-9, stderr="", timeout=True, wall=time.time() - t0, killed=True)
    if res["exit"] == 1 and res["out"].strip().endswith("timeout"):
        res["timeout"] = True
    m = _GO_PANIC.search(res["stderr"])
    if m:
        res["panic"] = res["stderr"][m.start():m.start() + 300].split("\n")[0]
        st = res["stderr"]
        cls = "panic"
        if "nil pointer" in st:
            cls = "nil-deref"
        elif "index out of range" in st:
            cls = "index-out-of-range"
        elif "slice bounds" in st:
            cls = "slice-bounds"
        elif "interface conversion" in st:
            cls = "type-assertion"
        elif "stack overflow" in st or "stack exceeds" in st:
            cls = "stack-overflow"
        res["cls"] = cls
        site = None
        for line in st.split("\n"):
            mm = re.match(r"^(ti/[\w/\.\(\)\*]+|main\.[\w\.\(\)\*]+)\(", line)
            if mm and "erif" not in mm.group(1):
                site = mm.group(1)
                break
        res["site"] = site
    return res


class Worker:
    def __init__(self, ti_verif, slot):
        self.bin, self.slot = ti_verif, slot
        self.p = None

    def start(self):
        env = dict(os.environ)
        env["TI_VERIF_WORKER"] = "1"
        env["GOMAXPROCS"] = "2"
        self.p = subprocess.Popen([self.bin], cwd=self.slot, env=env, stdin=subprocess.PIPE,
                                  stdout=subprocess.PIPE, stderr=subprocess.PIPE, bufsize=0)
        self.errbuf = []
        t = threading.Thread(target=self._drain, args=(self.p,), daemon=True)
        t.start()

    def _drain(self, p):
        try:
            for line in p.stderr:
                self.errbuf.append(line)
                if len(self.errbuf) > 400:
                    del self.errbuf[:200]
        except Exception:
            pass

    def _write_all(self, data):
        fd = self.p.stdin.fileno()
        while data:
            n = os.write(fd, data)
            data = data[n:]

    def stop(self):
        if self.p:
            try:
                self.p.kill()
                self.p.wait(timeout=5)
            except Exception:
                pass
            self.p = None

    def run(self, job, timeout=None):
        timeout = timeout or job.get("timeout") or 6      # batch programs (hundreds of rows) ask for more
        _prepare_slot(self.slot, job)
        if self.p is None or self.p.poll() is not None:
            self.start()
        cfg = job.get("cfg") or SHIPPED_CFG
        req = {"cwd": self.slot, "cfgkey": job.get("cfgkey") or cfg, "args": job["args"],
               "eof_budget": job.get("eof_budget", 10000), "read_budget": job.get("read_budget", 300000),
               "trace": bool(job.get("trace")), "digest": job.get("digest", "")}
        line = (json.dumps(req) + "\n").encode()
        # no thread per job: thread creation is as slow as process creation in this sandbox
        resp = None
        try:
            os.write(self.p.stdin.fileno(), line) if len(line) < 60000 else self._write_all(line)
            fd = self.p.stdout.fileno()
            deadline = time.time() + timeout
            chunks = []
            while True:
                left = deadline - time.time()
                if left <= 0:
                    self.stop()
                    return Result(out="", exit=-9, timeout=True, died=True, cls="hang:worker-timeout")
                r, _, _ = select.select([fd], [], [], left)
                if not r:
                    continue
                data = os.read(fd, 1 << 20)
                if not data:
                    break
                chunks.append(data)
                if data.endswith(b"\n"):
                    resp = b"".join(chunks)
                    break
        except (BrokenPipeError, OSError):
            resp = None
        if not resp:
            time.sleep(0.05)
            err = b"".join(self.errbuf).decode("utf-8", "replace")
            self.stop()
            cls = "worker-died"
            if "stack overflow" in err or "stack exceeds" in err:
                cls = "stack-overflow"
            site = None
            for l in err.split("\n"):
                mm = re.match(r"^(ti/[\w/\.\(\)\*]+)\(", l)
                if mm and "erif" not in mm.group(1):
                    site = mm.group(1)
                    break
            return Result(out="", exit=2, died=True, panic=cls, cls=cls, site=site, stderr=err[-3000:])
        d = json.loads(resp)
        r = Result(d)
        if "class" in d:
            r["cls"] = d["class"]
        return r


class Runner:
    """Pool of execution slots. mode 'worker' (in-process worker, fast) or 'blackbox'."""

    def __init__(self, work, mode="blackbox", n=None):
        self.work, self.mode = work, mode
        self.plain, self.verif = work.bins()
        if n is None:
            n = 4
        self.n = n
        self.slots = [work.fast("slot-%s-%d" % (mode, i)) for i in range(n)]
        self.workers = [Worker(self.verif, s) for s in self.slots] if mode == "worker" else None
        self.count = 0
        self.max_stuck = 8
        self.skipped = 0

    def close(self):
        if self.workers:
            for w in self.workers:
                w.stop()

    def run_one(self, job, slot=0):
        self.count += 1
        if self.mode == "worker":
            return self.workers[slot].run(job)
        return run_blackbox(self.plain, self.slots[slot], job)

    def run_many(self, jobs, progress=None):
        """jobs: list of job dicts; returns list of Result in the same order."""
        results = [None] * len(jobs)
        q = queue.Queue()
        for i, j in enumerate(jobs):
            q.put((i, j))
        errors = []
        stuck = [0]

        def loop(slot):
            while True:
                try:
                    i, j = q.get_nowait()
                except queue.Empty:
                    return
                if stuck[0] >= self.max_stuck:
                    # the tree under test hangs without reading input on many jobs: enough examples,
                    # do not spend 6 s on each of the rest (never happens on a tree that terminates)
                    results[i] = Result(out="", exit=0, skipped=True)
                    self.skipped += 1
                    continue
                try:
                    results[i] = self.run_one(j, slot)
                    if results[i].get("cls") == "hang:worker-timeout":
                        stuck[0] += 1
                except Exception as e:  # harness trouble
                    errors.append(e)
                    results[i] = Result(out="", exit=-1, harness_error=str(e))

        ths = [threading.Thread(target=loop, args=(s,), daemon=True) for s in range(self.n)]
        for t in ths:
            t.start()
        for t in ths:
            t.join()
        if errors:
            raise HarnessError("runner failure: %r" % errors[0])
        if self.mode == "worker" and self.guard and len(jobs) >= 8:
            results = self._differential_guard(jobs, results)
        return results

    guard = True
    drift = False

    def _differential_guard(self, jobs, results):
        """The in-process worker re-implements main()'s round loop and the printing tail of evaluationLoop.  A spread
        sample of the jobs is repeated with the real binary; if the outputs differ as sets of lines the tree under test
        has changed that orchestration: every job of this batch is then repeated with the real binary, whose results
        are the ones returned (events of the worker runs are kept)."""
        idx = sorted(set(int(k * (len(jobs) - 1) / 23.0) for k in range(24)))
        slot = self.work.sub("guard")
        differs = 0
        for i in idx:
            r = results[i]
            if r is None or r.get("skipped") or r.hung or r.crashed or r.get("harness_error"):
                continue
            b = run_blackbox(self.plain, slot, jobs[i])
            if b.get("timeout") or b.get("panic"):
                continue
            if sorted((b.get("out") or "").split("\n")) != sorted((r.get("out") or "").split("\n")):
                differs += 1
        if differs == 0:
            return results
        Runner.drift = True
        print("NOTE worker and real binary disagree on %d of %d sampled jobs: this batch is repeated with the real binary" % (differs, len(idx)))
        bb = Runner(self.work, "blackbox")
        real = bb.run_many(jobs)
        for r, w in zip(real, results):
            if w is not None and w.get("events") is not None and r.get("events") is None:
                r["events"] = w.get("events")
            if r.get("timeout") and w is not None and not w.hung:
                # the 500 ms watchdog under load: keep the worker's answer for this job
                r.update(w)
        return real


def confirm_alone(work, job, runs=2):
    """Re-run a job black-box, alone and sequentially (idle core), `runs` times."""
    plain, _ = work.bins()
    slot = work.sub("confirm")
    out = []
    for _ in range(runs):
        out.append(run_blackbox(plain, slot, job))
    return out


# --------------------------------------------------------------------------- TLC

class TLCResult:
    def __init__(self):
        self.ok = False
        self.generated = 0
        self.distinct = 0
        self.depth = 0
        self.printed = []
        self.violation = None
        self.raw = ""
        self.wall = 0.0
        self.coverage = {}


_TLC_STATES = re.compile(r"(\d+) states generated, (\d+) distinct states found")
_TLC_DEPTH = re.compile(r"The depth of the complete state graph search is (\d+)")


def run_tlc(work, module, cfg, workers=8, timeout=600, simulate=None, extra=None, consts=None,
            deadlock=False, coverage=False, heap=None, files=None, stream=None):
    """Run TLC on /verif/spec/<module>.tla with /verif/spec/<cfg> in a scratch copy.

    consts: dict name->TLA expression substituted for @@name@@ placeholders in the cfg.
    files: extra {name: content} written next to the spec (e.g. trace.ndjson).
    stream: optional callable(line) receiving each stdout line as TLC produces it.
    """
    d = work.sub()
    for n in os.listdir(SPEC):
        if n.endswith(".tla"):
            shutil.copy(os.path.join(SPEC, n), d)
    cfgtxt = open(os.path.join(SPEC, cfg)).read()
    for k, v in (consts or {}).items():
        cfgtxt = cfgtxt.replace("@@%s@@" % k, str(v))
    if "@@" in cfgtxt:
        raise HarnessError("unsubstituted placeholder in %s" % cfg)
    with open(os.path.join(d, "run.cfg"), "w") as f:
        f.write(cfgtxt)
    for n, c in (files or {}).items():
        with open(os.path.join(d, n), "w") as f:
            f.write(c)
    cmd = ["timeout", str(timeout), "java", "-XX:+UseParallelGC"]
    if heap:
        cmd.append("-Xmx" + heap)
    # TLC's per-run temporary directory goes into the scratch copy (removed with it), not into /tmp
    cmd += ["-Djava.io.tmpdir=" + d, "-Xss64m", "-cp", "/opt/veriftools/tla/tla2tools.jar:/opt/veriftools/tla/CommunityModules-deps.jar",
            "tlc2.TLC", "-workers", str(workers), "-metadir", os.path.join(d, "meta"), "-config", "run.cfg",
            "-maxSetSize", "100000000"]
    if not deadlock:
        cmd.append("-deadlock")
    if coverage:
        cmd += ["-coverage", "1"]
    if simulate:
        cmd += ["-simulate", simulate]
    if extra:
        cmd += extra
    cmd.append(module + ".tla")
    t0 = time.time()
    res = TLCResult()
    p = subprocess.Popen(cmd, cwd=d, stdout=subprocess.PIPE, stderr=subprocess.STDOUT, text=True,
                         env={**os.environ, "JAVA_TOOL_OPTIONS": os.environ.get("VF_JAVA_TOOL_OPTIONS", "")})
    lines = []
    for line in p.stdout:
        line = line.rstrip("\n")
        if stream is not None and line.startswith('"'):
            stream(line)
            continue
        lines.append(line)
    rc = p.wait()
    res.wall = time.time() - t0
    res.raw = "\n".join(lines)
    for l in lines:
        if l.startswith('"') and l.endswith('"'):
            res.printed.append(l)
    for m in _TLC_STATES.finditer(res.raw):
        res.generated, res.distinct = int(m.group(1)), int(m.group(2))
    m = _TLC_DEPTH.search(res.raw)
    if m:
        res.depth = int(m.group(1))
    if rc == 124:
        raise HarnessError("TLC timed out after %ss on %s/%s" % (timeout, module, cfg))
    if "Model checking completed. No error has been found." in res.raw or (simulate and rc == 0):
        res.ok = True
    else:
        m = re.search(r"Error: (.*)", res.raw)
        res.violation = m.group(1) if m else "TLC exit %d" % rc
        if "is violated" not in res.raw and "Temporal properties were violated" not in res.raw \
                and "Deadlock reached" not in res.raw:
            # parse errors, runtime evaluation errors, OOM ... are harness trouble
            raise HarnessError("TLC failed on %s/%s: %s\n%s" % (module, cfg, res.violation, res.raw[-3000:]))
    shutil.rmtree(os.path.join(d, "meta"), ignore_errors=True)
    return res


def decode_printed(lines):
    """PrintT(ToJson(x)) lines are TLA+ strings holding JSON."""
    out = []
    for l in lines:
        try:
            s = json.loads(l)
            out.append(json.loads(s) if isinstance(s, str) else s)
        except Exception:
            raise HarnessError("cannot decode TLC output line: %r" % l[:200])
    return out


# --------------------------------------------------------------------------- findings & verdicts

class Findings:
    def __init__(self):
        self.entries = []
        if os.path.exists(KNOWN):
            self.entries = json.load(open(KNOWN)).get("findings", [])

    def match(self, prop, key):
        for e in self.entries:
            if e.get("status", "open") != "open":
                continue
            if prop in e.get("properties", [e.get("property")]) and e["key"] == key:
                return e
        return None


class Verdict:
    """Collects per-case outcomes of one check run."""

    def __init__(self, prop, tier, work):
        self.prop, self.tier, self.work = prop, tier, work
        self.findings = Findings()
        self.known = {}       # key -> example text
        self.violations = []  # (key, replay path)
        self.counts = {}
        self.samples = []
        self.notes = []
        self.kf_hits = {}     # known-finding key -> occurrences in this run
        self.kf_last = {}     # known-finding key -> (what, replay files) of the latest occurrence

    def count(self, k, n=1):
        self.counts[k] = self.counts.get(k, 0) + n

    def sample(self, s, cap=6):
        if len(self.samples) < cap:
            self.samples.append(s)

    def fail(self, key, what, replay_files, detail=None):
        """A property violation with finding-key `key`. Known -> KNOWN-FINDING else VIOLATION."""
        e = self.findings.match(self.prop, key)
        if e is not None:
            if key not in self.known:
                self.known[key] = what
            self.count("known_finding_hits")
            self.kf_hits[key] = self.kf_hits.get(key, 0) + 1
            self.kf_last[key] = (what, replay_files)
            return False
        if any(k == key for k, _ in self.violations):
            self.count("violation_repeats")
            return True
        if len(self.violations) >= int(os.environ.get("VERIF_MAXVIOL", "12")):
            self.count("violations_not_written")
            return True
        h = hashlib.sha1((key + what).encode()).hexdigest()[:10]
        rdir = os.path.join(EVID, "replay", "%s-%s" % (self.prop, h))
        shutil.rmtree(rdir, ignore_errors=True)
        os.makedirs(rdir)
        for n, c in replay_files.items():
            p = os.path.join(rdir, n)
            os.makedirs(os.path.dirname(p), exist_ok=True)
            with open(p, "wb" if isinstance(c, bytes) else "w") as f:
                f.write(c)
        with open(os.path.join(rdir, "violation.json"), "w") as f:
            json.dump({"property": self.prop, "key": key, "what": what, "detail": detail}, f, indent=1)
        self.violations.append((key, rdir))
        return True

    def seen(self, key):
        """has this finding key been settled already in this run (known finding confirmed, or violation
        recorded)?  Further occurrences need no new confirmation run."""
        if key in self.known:
            return True
        return any(k == key for k, _ in self.violations)

    def again(self, key):
        if key in self.known:
            self.known_hit(key)
        else:
            self.count("violation_repeats")

    def known_hit(self, key, what="", replay_files=None):
        """another occurrence of an already confirmed known finding (no new confirmation run)"""
        self.count("known_finding_hits")
        self.kf_hits[key] = self.kf_hits.get(key, 0) + 1
        if replay_files is not None:
            self.kf_last[key] = (what, replay_files)

    def check_growth(self):
        """A known finding lists, for deterministic tiers, how many cases it explained on the unchanged
        tree (expected_hits).  More cases than that means something else now fails the same way."""
        for key, n in sorted(self.kf_hits.items()):
            e = self.findings.match(self.prop, key)
            exp = (e or {}).get("expected_hits", {}).get("%s:%s" % (self.prop, self.tier))
            if exp is not None and n > exp:
                what, files = self.kf_last.get(key, ("", {}))
                self.known.pop(key, None)
                # bypass the known-finding match: this is a new failure under an old name
                grown = "known-finding-grew:%s (%d cases on the unchanged tree, %d now)" % (key, exp, n)
                h = hashlib.sha1(grown.encode()).hexdigest()[:10]
                rdir = os.path.join(EVID, "replay", "%s-%s" % (self.prop, h))
                shutil.rmtree(rdir, ignore_errors=True)
                os.makedirs(rdir)
                for fn, c in (files or {}).items():
                    p = os.path.join(rdir, fn)
                    os.makedirs(os.path.dirname(p), exist_ok=True)
                    with open(p, "wb" if isinstance(c, bytes) else "w") as f:
                        f.write(c)
                with open(os.path.join(rdir, "violation.json"), "w") as f:
                    json.dump({"property": self.prop, "key": grown, "what": what}, f, indent=1)
                self.violations.append((grown, rdir))

    def finish(self, level, coverage, assumptions=None):
        self.check_growth()
        for k, w in sorted(self.known.items()):
            print("KNOWN-FINDING: property=%s %s :: %s" % (self.prop, k, w.replace("\n", "\\n")[:300]))
        for k, rdir in self.violations:
            print("VIOLATION property=%s replay=%s" % (self.prop, rdir))
            print("  key: %s" % k)
        cov = dict(coverage)
        cov.setdefault("samples", self.samples or ["(none)"])
        cov["outcome_counts"] = self.counts
        cov["known_findings_hit"] = sorted(self.known)
        cov["known_finding_cases"] = dict(self.kf_hits)
        ev = {
            "property_id": self.prop, "tier": self.tier, "seed": seed(), "level": level,
            "coverage": cov, "assumptions": assumptions or [],
            "wall_s": round(time.time() - self.work.t0, 2), "violations": len(self.violations),
        }
        os.makedirs(EVID, exist_ok=True)
        with open(os.path.join(EVID, "%s.json" % self.prop), "w") as f:
            json.dump(ev, f, indent=1, default=str)
        return EXIT_VIOLATION if self.violations else EXIT_OK


def job_files_for_replay(job):
    files = {}
    for n, c in job["files"].items():
        files["input/" + n] = c
    files["input/ARGS"] = " ".join(job["args"]) + "\n"
    if job.get("preload") is not None:
        files["input/.ti-loader.json"] = json.dumps({"preload": job["preload"]})
    cfg = job.get("cfg") or SHIPPED_CFG
    files["input/CONFIG"] = cfg + "\n"
    if cfg != SHIPPED_CFG and os.path.isdir(cfg):
        for n in sorted(os.listdir(cfg)):
            p = os.path.join(cfg, n)
            if os.path.isfile(p):
                files["input/.ti-config/" + n] = open(p).read()
    return files


# --------------------------------------------------------------------------- output parsing

_DIAG = re.compile(r"^(@?)([^:\n]*?):::(\d+):::(.*)$")


def parse_lines(out):
    """-> list of (kind, file, row, text) for diagnostics ('d') and hints ('h'); others ('?', raw)."""
    res = []
    for line in out.split("\n"):
        if line == "":
            continue
        m = _DIAG.match(line)
        if m:
            res.append(("h" if m.group(1) else "d", m.group(2), int(m.group(3)), m.group(4)))
        else:
            res.append(("?", "", 0, line))
    return res


def corpus_files():
    return sorted(f for f in os.listdir(CORPUS) if f.endswith(".rb"))


def rng(extra=0):
    return random.Random(seed() * 1000003 + extra)


def tier_rng(tier, extra=0):
    """Quick tiers explore a fixed input set (their set of failing cases on the unchanged tree is
    closed and fully recorded); VERIF_SEED drives the additional exploration of thorough tiers."""
    if tier == "quick":
        return random.Random(1000003 + extra)
    return rng(extra)


def tier_seed(tier):
    return 1 if tier == "quick" else seed()
