"""C18 - preloaded files act like a prefix whose diagnostics are hidden.

spec/Run.tla has the preload passes explicit (each round: every preload file with isLoad, then the
target) and proves NoPreloadDiag / PrintedNamesTarget; recorded runs with preload files are
trace-validated against it (file passes in preload order in every round, diagnostics of preload
passes never recorded).  Replay: corpus and generated programs are split at top-level statement
boundaries into 1-3 preload files plus a target; the output must equal the output of the
concatenation restricted to the target's rows (rebased), and no line may name a preload file.
"""
import re

from . import common as C
from . import pool as P
from . import robust as R

OPEN = re.compile(r"^\s*(def|class|module|if|unless|while|until|case|begin|for)\b|\bdo\s*(\|[^|]*\|)?\s*$")
END = re.compile(r"^\s*end\b")


def top_level_rows(text):
    """rows r (2..n): a file may be cut before row r (keyword depth 0 on both sides, statement boundary)"""
    ok = set(P.boundaries(text))
    lines = text.split("\n")
    depth = 0
    rows = []
    for i, line in enumerate(lines):
        r = i + 1
        code = P.strip_strings(line)
        if code is None:
            return []
        if depth == 0 and r in ok and r > 1 and line.strip() != "" and not re.match(r"\s*(end\b|[\}\]\)])", line) and not re.search(r"\b(if|unless|while|until|rescue)\b", code.split("#")[0][1:] if False else ""):
            rows.append(r)
        if END.search(code):
            depth = max(0, depth - 1)
        elif OPEN.search(code) and not re.search(r"\bend\s*$", code) and not ("def" in code and "=" in code.split("def")[0][-3:]):
            depth += 1
    return rows


LIBRARY_TEMPLATES = [
    # (definitions - what a preloaded library file holds, uses - what the target does with it)
    (["class Hoge", "  attr_reader :hog", "  attr_accessor :acc", "  def initialize(name)", "    @name = name", "  end",
      "  def test(a, b)", "    a", "  end", "  def name", "    @name", "  end", "end"],
     ["h = Hoge.new(\"n\")", "dbtp h.hog", "dbtp h.acc", "dbtp h.name", "dbtp h.test(1)", "dbtp h.test(1, 2)", "h.acc = 1", "dbtp h.acc"]),
    (["module Util", "  LIMIT = 10", "  def self.twice(v)", "    v * 2", "  end", "  def helper(opt = nil, *rest, key: 1)", "    opt", "  end", "end",
      "class Worker", "  include Util", "  def work", "    helper", "  end", "end"],
     ["dbtp Util::LIMIT", "dbtp Util.twice(2)", "w = Worker.new", "dbtp w.work", "dbtp w.helper(1, 2, key: 3)", "dbtp w.missing"]),
    (["def lib_id(x)", "  x", "end", "def lib_pair(a, b = 1)", "  [a, b]", "end", "def lib_unused(u)", "  1", "end", "$lib_global = 1", "LIB_CONST = \"s\""],
     ["dbtp lib_id(1)", "dbtp lib_id(\"s\")", "dbtp lib_pair(1.5)", "dbtp lib_unused", "dbtp $lib_global", "dbtp LIB_CONST", "dbtp lib_missing(1)"]),
    # two library files in one template: the second redefines what the first defines (cut between them as well)
    (["def conf", "  \"s\"", "end", "$mode = \"s\"", "LIB_A = 1",
      "def conf", "  1", "end", "$mode = 1", "def only_second", "  conf", "end"],
     ["dbtp conf", "dbtp $mode", "x = conf", "dbtp only_second", "dbtp LIB_A"]),
    (["class Base1", "  def self.build(kind)", "    new", "  end", "  def kind", "    @kind", "  end", "  protected", "  def guarded", "    1", "  end",
      "  private", "  def hidden", "    2", "  end", "end", "class Derived1 < Base1", "  def peek(other)", "    other.guarded", "  end", "end"],
     ["d = Derived1.build(:x)", "dbtp d", "dbtp d.kind", "dbtp d.peek(Derived1.new)", "dbtp d.guarded", "dbtp d.hidden"]),
]


def library_programs(work, stats, rng, tier):
    """definitions | uses programs: the natural shape of a preload (library first, the target uses it).  From the class
    graphs of Classes.tla (plain and with every class in a namespace), from MethodPaths.tla / MethodBodies.tla, and from
    templates whose library part leaves untyped placeholders (never-assigned attributes, parameters that get no type)."""
    from . import classes as K
    from . import c16
    from . import methodpaths as MP
    out = []
    graphs = rng.sample(K.emit(work, stats), 40 if tier == "quick" else 120)
    places = c16.choose_places(work, stats, graphs, rng)
    for gi, gr in enumerate(graphs):
        for pl in (None, places[gi]):
            dl, _ = K.render(gr, K.PLAIN, place=pl)
            ql, _ = K.query_lines(gr, K.PLAIN, place=pl)
            out.append(("classes-defs|uses", "\n".join(dl + ql) + "\n", None, [(len(dl) + 1,)]))
    mps = rng.sample(MP.emit(work, stats, 2), 40 if tier == "quick" else 120)
    for p in mps:
        lines, info = MP.render(p)
        first_use = min(r for r in info["site_row"].values())
        # the classes end before the first site's statement group: cut at the first top-level row after the class blocks
        ncls = next(i for i, l in enumerate(lines) if l.startswith(("r0 =", "def caller", "module")) and i >= 5 and
                    not any(x in l for x in ("class Top", "class Mid", "class Leaf")) and _after_classes(lines, i))
        out.append(("methodpaths-defs|uses", "\n".join(lines) + "\n", None, [(ncls + 1,)]))
    for defs, uses in LIBRARY_TEMPLATES:
        text = "\n".join(defs + uses) + "\n"
        forced = [(len(defs) + 1,)]
        if defs[0] == "def conf":
            forced.append((6, len(defs) + 1))      # settings | override | target
        out.append(("library-template", text, None, forced))
    return out


def _after_classes(lines, i):
    """is row i (0-based) behind the three class blocks?"""
    seen = sum(1 for l in lines[:i] if l.strip().startswith("class ") and any(c in l for c in ("Top", "Mid", "Leaf")))
    return seen == 3 and not lines[i].startswith("  ")


def run(tier, work):
    v = C.Verdict("C18", tier, work)
    rng = C.tier_rng(tier, 18)
    stats = dict(states=0, transitions=0, traces=0, trace_events=0)
    r = C.run_tlc(work, "MCRun", "Run_mc.cfg", workers=4, timeout=600)
    if not r.ok:
        raise C.HarnessError("Run.tla violates its own properties: %s" % r.violation)
    stats["states"] += r.distinct
    stats["transitions"] += r.generated
    cfgs = P.gen_configs(work)
    progs = [(t, x, None) for t, x in P.corpus(rng, 80 if tier == "quick" else 585)]
    progs += P.generated(work, stats, rng, *((10, 6, 6) if tier == "quick" else (60, 40, 40)))
    progs = [(t, x, c, None) for t, x, c in progs] + library_programs(work, stats, rng, tier)
    jobs, meta = [], []
    for tag, text, cfgname, forced in progs:
        cfg = cfgs[cfgname] if cfgname else None
        rows = top_level_rows(text)
        if not rows:
            continue
        lines = text.split("\n")
        splits = [list(f) for f in (forced or []) if all(r_ in rows for r_ in f)]
        for _ in range(3 if tier == "quick" else 4):      # measured: 16 black-box runs / s; 8 cuts x 600 library programs took 83 min
            k = rng.choice([1, 1, 2, 3])
            if len(rows) < k:
                continue
            splits.append(sorted(rng.sample(rows, k)))
        for cut in {tuple(s) for s in splits}:
            parts, prev = [], 1
            for r_ in cut:
                parts.append("\n".join(lines[prev - 1:r_ - 1]) + "\n")
                prev = r_
            target = "\n".join(lines[prev - 1:])
            # written order is NOT file-name order: the first preload file sorts last
            names = ["p%d.rb" % (9 - i) for i in range(len(parts))]
            for args in (["t.rb"], ["t.rb", "-i"]):
                files = {n: p for n, p in zip(names, parts)}
                files["t.rb"] = target
                jobs.append({"cfg": cfg, "files": files, "args": args, "preload": names, "trace": True})
                meta.append(("split", tag, cut, len(jobs) + 0))
                jobs.append({"cfg": cfg, "files": {"t.rb": text}, "args": args})
                meta.append(("concat", tag, cut, None))
    # the order of preload, placeholder cleaning and target evaluation is decided in main(): the comparison uses the real
    # binary (black-box); the in-process worker only supplies event traces for the life-cycle validation
    bb = C.Runner(work, "blackbox")
    results = bb.run_many(jobs)
    ntr = 400 if tier == "quick" else 3000
    tidx = [i for i in range(0, len(jobs), 2)][:ntr]
    wr = C.Runner(work, "worker")
    try:
        tres = dict(zip(tidx, wr.run_many([jobs[i] for i in tidx])))
    finally:
        wr.close()
    traces = []
    compared = 0
    for i in range(0, len(jobs), 2):
        (kind, tag, cut, _), js, rs = meta[i], jobs[i], results[i]
        jc, rc = jobs[i + 1], results[i + 1]
        if rc.hung or rc.crashed or rc.get("exit") != 0:
            v.count("concatenation_fails_skipped")
            continue
        shift = cut[-1] - 1
        want = [(k, f, row - shift, m) for k, f, row, m in C.parse_lines(rc["out"]) if row > shift]
        if rs.get("timeout") or rc.get("timeout"):
            v.count("watchdog_timeout_skipped")      # the 500 ms watchdog under load: no verdict from such a run
            continue
        got = C.parse_lines(rs.get("out") or "") if not (rs.hung or rs.crashed) else [("!", "", 0, str(rs.get("cls")))]
        compared += 1
        if i in tres and not tres[i].get("died"):
            traces.append((i, R.trace_of("#%d|%s|%s" % (i, tag, " ".join(js["args"])), tres[i], len(js["preload"]),
                                         {"h"} if "-i" in js["args"] else set())))
        names_preload = [x for x in got if x[0] in "dh" and x[1] != "t.rb"]
        if sorted(want) == sorted(got) and not names_preload:
            continue
        extra = [x for x in got if x not in want]
        missing = [x for x in want if x not in got]
        if names_preload:
            key = "output-names-preload-file"
        elif extra and not missing and all(x[0] == "h" and " -> " in x[3] for x in extra):
            key = "Dev_PreloadDefineInfoLeak"
        else:
            key = "split-differs:%s" % ("hints" if all(x[0] == "h" for x in extra + missing) else "diagnostics")
        if v.seen(key):
            v.again(key)
            continue
        a = C.confirm_alone(work, {"cfg": js["cfg"], "files": js["files"], "args": js["args"], "preload": js["preload"]}, runs=1)[0]
        b = C.confirm_alone(work, {"cfg": jc["cfg"], "files": jc["files"], "args": jc["args"]}, runs=1)[0]
        want2 = [(k, f, row - shift, m) for k, f, row, m in C.parse_lines(b.get("out") or "") if row > shift]
        got2 = C.parse_lines(a.get("out") or "")
        if sorted(want2) == sorted(got2):
            v.count("not_reproduced_blackbox")
            continue
        files = C.job_files_for_replay({"cfg": js["cfg"], "files": js["files"], "args": js["args"], "preload": js["preload"]})
        files["concat/t.rb"] = jc["files"]["t.rb"]
        v.fail(key, "%s cut before rows %s (%s): preload run prints %r / lacks %r" % (tag, list(cut), " ".join(js["args"][1:]) or "plain",
                                                                                  [x for x in got2 if x not in want2][:3], [x for x in want2 if x not in got2][:3]), files)
    bad = R.validate_traces(work, [t for _, t in traces], stats, 10000)
    for pos, rid, reason in bad[:5]:
        if reason in ("run ended in a panic", "run never finished (budget / watchdog)", "exit status is not 0"):
            continue
        i = int(rid[1:].split("|")[0])
        v.fail("lifecycle:" + reason, "preload run %s is not a behaviour of Run.tla: %s" % (rid, reason),
               C.job_files_for_replay({"cfg": jobs[i]["cfg"], "files": jobs[i]["files"], "args": jobs[i]["args"], "preload": jobs[i]["preload"]}))
    v.sample({"program": progs[0][0], "cut_rows_example": meta[0][2] if meta else None})
    cov = {"states": stats["states"], "transitions": stats["transitions"], "traces_validated_against_impl": stats["traces"],
           "trace_events": stats["trace_events"], "splits_compared": compared, "programs": len(progs),
           "rule": "corpus + generated programs cut at 1-3 random top-level statement boundaries into preload files + target; "
                   "definitions | uses programs (Classes.tla graphs plain and in namespaces, MethodPaths.tla programs, library templates "
                   "with never-assigned attributes and untyped parameters) cut between the definitions and the uses; "
                   "run plain and with -i, compared with the concatenation restricted to the target's rows; preload runs "
                   "trace-validated against Run.tla"}
    return v.finish("model_checking", cov, assumptions=["top-level boundaries of corpus programs found by keyword-depth counting (conservative)"])


def replay(work, path):
    return 0
