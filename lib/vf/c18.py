"""C18 - preloaded files act like a prefix whose diagnostics are hidden.

spec/Run.tla has the preload passes explicit (each round: every preload file with isLoad, then the
target) and proves NoPreloadDiag / PrintedNamesTarget; recorded runs with preload files are
trace-validated against it (file passes in preload order in every round, diagnostics of preload
passes never recorded).  Replay: corpus and generated programs are split at top-level statement
boundaries into 1-3 preload files plus a target; the output must equal the output of the
concatenation restricted to the target's rows (rebased), and no line may name a preload file.
"""
import re

from . import common as C
from . import pool as P
from . import robust as R

OPEN = re.compile(r"^\s*(def|class|module|if|unless|while|until|case|begin|for)\b|\bdo\s*(\|[^|]*\|)?\s*$")
END = re.compile(r"^\s*end\b")


def top_level_rows(text):
    """rows r (2..n): a file may be cut before row r (keyword depth 0 on both sides, statement boundary)"""
    ok = set(P.boundaries(text))
    lines = text.split("\n")
    depth = 0
    rows = []
    for i, line in enumerate(lines):
        r = i + 1
        code = P.strip_strings(line)
        if code is None:
            return []
        if depth == 0 and r in ok and r > 1 and line.strip() != "" and not re.search(r"\b(if|unless|while|until|rescue)\b", code.split("#")[0][1:] if False else ""):
            rows.append(r)
        if END.search(code):
            depth = max(0, depth - 1)
        elif OPEN.search(code) and not re.search(r"\bend\s*$", code) and "=" not in code.split("def")[0][-3:]:
            depth += 1
    return rows


def run(tier, work):
    v = C.Verdict("C18", tier, work)
    rng = C.tier_rng(tier, 18)
    stats = dict(states=0, transitions=0, traces=0, trace_events=0)
    r = C.run_tlc(work, "MCRun", "Run_mc.cfg", workers=4, timeout=600)
    if not r.ok:
        raise C.HarnessError("Run.tla violates its own properties: %s" % r.violation)
    stats["states"] += r.distinct
    stats["transitions"] += r.generated
    cfgs = P.gen_configs(work)
    progs = [(t, x, None) for t, x in P.corpus(rng, 80 if tier == "quick" else 585)]
    progs += P.generated(work, stats, rng, *((10, 6, 6) if tier == "quick" else (60, 40, 40)))
    jobs, meta = [], []
    for tag, text, cfgname in progs:
        cfg = cfgs[cfgname] if cfgname else None
        rows = top_level_rows(text)
        if not rows:
            continue
        lines = text.split("\n")
        splits = []
        for _ in range(3 if tier == "quick" else 8):
            k = rng.choice([1, 1, 2, 3])
            if len(rows) < k:
                continue
            splits.append(sorted(rng.sample(rows, k)))
        for cut in {tuple(s) for s in splits}:
            parts, prev = [], 1
            for r_ in cut:
                parts.append("\n".join(lines[prev - 1:r_ - 1]) + "\n")
                prev = r_
            target = "\n".join(lines[prev - 1:])
            names = ["p%d.rb" % (i + 1) for i in range(len(parts))]
            for args in (["t.rb"], ["t.rb", "-i"]):
                files = {n: p for n, p in zip(names, parts)}
                files["t.rb"] = target
                jobs.append({"cfg": cfg, "files": files, "args": args, "preload": names, "trace": True})
                meta.append(("split", tag, cut, len(jobs) + 0))
                jobs.append({"cfg": cfg, "files": {"t.rb": text}, "args": args})
                meta.append(("concat", tag, cut, None))
    wr = C.Runner(work, "worker")
    try:
        results = wr.run_many(jobs)
    finally:
        wr.close()
    traces = []
    compared = 0
    for i in range(0, len(jobs), 2):
        (kind, tag, cut, _), js, rs = meta[i], jobs[i], results[i]
        jc, rc = jobs[i + 1], results[i + 1]
        if rc.hung or rc.crashed or rc.get("exit") != 0:
            v.count("concatenation_fails_skipped")
            continue
        shift = cut[-1] - 1
        want = [(k, f, row - shift, m) for k, f, row, m in C.parse_lines(rc["out"]) if row > shift]
        got = C.parse_lines(rs.get("out") or "") if not (rs.hung or rs.crashed) else [("!", "", 0, str(rs.get("cls")))]
        compared += 1
        if not rs.get("died") and len(traces) < (400 if tier == "quick" else 3000):
            traces.append((i, R.trace_of("#%d|%s|%s" % (i, tag, " ".join(js["args"])), rs, len(js["preload"]),
                                         {"h"} if "-i" in js["args"] else set())))
        names_preload = [x for x in got if x[0] in "dh" and x[1] != "t.rb"]
        if sorted(want) == sorted(got) and not names_preload:
            continue
        extra = [x for x in got if x not in want]
        missing = [x for x in want if x not in got]
        if names_preload:
            key = "output-names-preload-file"
        elif extra and not missing and all(x[0] == "h" and " -> " in x[3] for x in extra):
            key = "Dev_PreloadDefineInfoLeak"
        else:
            key = "split-differs:%s" % ("hints" if all(x[0] == "h" for x in extra + missing) else "diagnostics")
        if v.seen(key):
            v.again(key)
            continue
        a = C.confirm_alone(work, {"cfg": js["cfg"], "files": js["files"], "args": js["args"], "preload": js["preload"]}, runs=1)[0]
        b = C.confirm_alone(work, {"cfg": jc["cfg"], "files": jc["files"], "args": jc["args"]}, runs=1)[0]
        want2 = [(k, f, row - shift, m) for k, f, row, m in C.parse_lines(b.get("out") or "") if row > shift]
        got2 = C.parse_lines(a.get("out") or "")
        if sorted(want2) == sorted(got2):
            v.count("not_reproduced_blackbox")
            continue
        files = C.job_files_for_replay({"cfg": js["cfg"], "files": js["files"], "args": js["args"], "preload": js["preload"]})
        files["concat/t.rb"] = jc["files"]["t.rb"]
        v.fail(key, "%s cut before rows %s (%s): preload run prints %r / lacks %r" % (tag, list(cut), " ".join(js["args"][1:]) or "plain",
                                                                                  [x for x in got2 if x not in want2][:3], [x for x in want2 if x not in got2][:3]), files)
    bad = R.validate_traces(work, [t for _, t in traces], stats, 10000)
    for pos, rid, reason in bad[:5]:
        if reason in ("run ended in a panic", "run never finished (budget / watchdog)", "exit status is not 0"):
            continue
        i = int(rid[1:].split("|")[0])
        v.fail("lifecycle:" + reason, "preload run %s is not a behaviour of Run.tla: %s" % (rid, reason),
               C.job_files_for_replay({"cfg": jobs[i]["cfg"], "files": jobs[i]["files"], "args": jobs[i]["args"], "preload": jobs[i]["preload"]}))
    v.sample({"program": progs[0][0], "cut_rows_example": meta[0][2] if meta else None})
    cov = {"states": stats["states"], "transitions": stats["transitions"], "traces_validated_against_impl": stats["traces"],
           "trace_events": stats["trace_events"], "splits_compared": compared, "programs": len(progs),
           "rule": "corpus + generated programs cut at 1-3 random top-level statement boundaries into preload files + target, "
                   "run plain and with -i, compared with the concatenation restricted to the target's rows; preload runs "
                   "trace-validated against Run.tla"}
    return v.finish("model_checking", cov, assumptions=["top-level boundaries of corpus programs found by keyword-depth counting (conservative)"])


def replay(work, path):
    return 0
