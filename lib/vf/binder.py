"""Replay of spec/Binder.tla cases into the real binary (C07, C08, C14, C21 share this).

A TLC case is (decls, call, as-is result, MustPass, MustFail).  The concretiser writes every
declaration as one method of a generated configuration class and every call as one source row;
the real ti answers with diagnostics per row and (verif hooks) one `bind` event per binder run,
which tells how ti itself saw the declaration and the arguments.
"""
import json
import os

from . import common as C

TGT, FOO, BAR = "VfTgt", "VfFoo", "VfBar"
CLS_JSON = {"Integer": "Int", "String": "String", "Foo": FOO, "Bar": BAR, "NilClass": "NilClass", "Float": "Float", "untyped": "Untyped"}

PREAMBLE = [
    ("o", "%s.new" % TGT, None),
    ("foo", "%s.new" % FOO, "VfFoo"),
    ("bar", "%s.new" % BAR, "VfBar"),
    ("uis", "true ? 1 : \"s\"", "Union<Integer String>"),
    ("uib", "true ? 1 : bar", "Union<Integer VfBar>"),
    ("usf", "true ? \"s\" : foo", "Union<String VfFoo>"),
    ("uif", "true ? 1 : foo", "Union<Integer VfFoo>"),
]


def ty_key(t):
    """canonical hashable form of a spec type"""
    return (t["k"], bool(t["u"]), tuple(sorted((v["tt"], v["c"]) for v in t["vs"])))


def arg_expr(t):
    k = ty_key(t)
    names = tuple(c for _, c in k[2])
    if not k[1]:
        return {("Integer",): "1", ("String",): "\"s\"", ("Foo",): "foo", ("Bar",): "bar"}[names]
    return {("Integer", "String"): "uis", ("Bar", "Integer"): "uib", ("Foo", "String"): "usf",
            ("Foo", "Integer"): "uif"}[tuple(sorted(names))]


def type_json(t, notation=0):
    """spec type -> config `type` value. notation 0: long (list), 1: compact ('A|B' string)"""
    if t["k"] == "any":
        return ["Untyped"] if notation == 0 else "Untyped"
    names = [CLS_JSON[v["c"]] for v in sorted(t["vs"], key=lambda v: v["c"])]
    if notation == 0:
        return names
    return "|".join(names)


def param_json(p, notation=0):
    d = {"type": type_json(p["ty"], notation)}
    if p["kind"] in ("key", "optkey"):
        d["key"] = p["key"] + ":"
    if notation == 0:
        if p["kind"] in ("opt", "optkey"):
            d["is_default"] = True
        if p["kind"] == "rest":
            d["is_asterisk"] = True
        return d
    # compact notation: "?T" = T with is_default, "*T" = T with is_asterisk (single, non-union types only)
    single = isinstance(d["type"], str) and "|" not in d["type"]
    if p["kind"] in ("opt", "optkey"):
        if single:
            d["type"] = "?" + d["type"]
        else:
            d["is_default"] = True
    if p["kind"] == "rest":
        if single:
            d["type"] = "*" + d["type"]
        else:
            d["is_asterisk"] = True
    return d


def decl_key(decls):
    return json.dumps(decls, sort_keys=True)


def build_config(work, decl_list, notation=0, name="cfg", anyret=False):
    """decl_list: list of `decls` (each a list of overloads). Returns (cfgdir, {decl_key: method name})."""
    d = work.sub(name)
    for f in os.listdir(C.SHIPPED_CFG):
        os.symlink(os.path.join(C.SHIPPED_CFG, f), os.path.join(d, f))
    names = {}
    methods = []
    for i, decls in enumerate(decl_list):
        m = "m%d" % i
        names[decl_key(decls)] = m
        for ov in decls:
            methods.append({"name": m, "arguments": [param_json(p, notation) for p in ov],
                            "return_type": {"type": ["Untyped" if anyret else "Int"]}})
    new = {"name": "new", "arguments": [], "return_type": {"type": [TGT]}}
    json.dump({"frame": "Builtin", "class": TGT, "instance_methods": methods, "class_methods": [new]},
              open(os.path.join(d, "zz_vf_tgt.json"), "w"))
    for cls in (FOO, BAR):
        json.dump({"frame": "Builtin", "class": cls, "instance_methods": [],
                   "class_methods": [{"name": "new", "arguments": [], "return_type": {"type": [cls]}}]},
                  open(os.path.join(d, "zz_%s.json" % cls.lower()), "w"))
    return d, names


def call_src(method, call, order=None):
    args = []
    idx = list(range(len(call)))
    if order is not None:
        idx = order
    for i in idx:
        a = call[i]
        e = arg_expr(a["ty"])
        args.append(("%s: %s" % (a["key"], e)) if a["key"] else e)
    return "o.%s(%s)" % (method, ", ".join(args))


def program(rows):
    """rows: list of source lines for the calls. Returns (text, first_call_row, probe_rows)"""
    lines = []
    probes = {}
    for var, expr, expect in PREAMBLE:
        lines.append("%s = %s" % (var, expr))
        if expect:
            lines.append("dbtp %s" % var)
            probes[len(lines)] = (var, expect)
    first = len(lines) + 1
    lines.extend(rows)
    return "\n".join(lines) + "\n", first, probes


def abstract_type(tj):
    """event type JSON -> spec type (as ty_key)"""
    k = tj.get("k")
    if k == "untyped":
        return ("any", False, ())
    if k == "unknown":
        return ("unknown", False, ())
    if k == "block":
        return ("block", False, ())
    if k == "union":
        vs = []
        for v in tj.get("v") or []:
            vs.append(variant_of(v))
        return ("t", True, tuple(sorted(vs)))
    return ("t", False, (variant_of(tj),))


TT = {"Integer": "INT", "String": "STRING", "NilClass": "NIL", "Bool": "BOOL", "Float": "FLOAT", "Symbol": "SYMBOL",
      "Range": "RANGE"}


def variant_of(v):
    k = v.get("k")
    if k == "cls":
        n = v["n"]
        if n in TT:
            return (TT[n], n)
        return ("OBJECT", n.replace("Vf", "") if n.startswith("Vf") else n)
    if k == "arr":
        return ("ARRAY", "Array")
    if k == "hash":
        return ("HASH", "Hash")
    if k == "untyped":
        return ("UNTYPED", "untyped")
    if k == "class":
        return ("CLASS", v.get("n", ""))
    return (k.upper(), k)


def spec_type_from_key(k):
    return {"k": k[0], "u": k[1], "vs": [{"tt": a, "c": b} for a, b in k[2]]}


def event_matches_case(ev, ov, call):
    """does a bind event show the declaration/arguments the concretiser intended?"""
    decl = ev.get("decl") or []
    if len(decl) != len(ov):
        return "declaration has %d parameters in ti, %d intended" % (len(decl), len(ov))
    for d, p in zip(decl, ov):
        kind_key = d["name"].endswith(":") and len(d["name"]) >= 2
        if kind_key != (p["kind"] in ("key", "optkey")):
            return "parameter %s keyword-ness differs" % d["name"]
        if kind_key and d["name"][:-1] != p["key"]:
            return "keyword name differs"
        if bool(d.get("def")) != (p["kind"] in ("opt", "optkey")):
            return "default flag of %s differs (ti: %s, intended kind %s)" % (d["name"], d.get("def"), p["kind"])
        if bool(d.get("ast")) != (p["kind"] == "rest"):
            return "asterisk flag of %s differs" % d["name"]
        if abstract_type(d["t"]) != ty_key(p["ty"]):
            return "type of %s differs: ti %s intended %s" % (d["name"], abstract_type(d["t"]), ty_key(p["ty"]))
    args = ev.get("args") or []
    if len(args) != len(call):
        return "ti saw %d arguments, %d written" % (len(args), len(call))
    for a, c in zip(args, call):
        if (a["key"][:-1] if a["key"] else "") != c["key"]:
            return "argument key differs"
        if abstract_type(a["t"]) != ty_key(c["ty"]):
            return "argument type differs: ti %s intended %s" % (abstract_type(a["t"]), ty_key(c["ty"]))
    return ""


RES_CLASS = [("too few arguments", "too-few"), ("too many arguments", "too-many"), ("is extra argument", "extra-arg"),
             (": is not defined expected", "missing-key"), ("is not defined expected", "kw-for-positional"),
             ("type mismatch", "mismatch")]


def classify_msg(msg):
    for frag, cls in RES_CLASS:
        if frag in msg:
            return cls
    return "other"
