"""C11 - independent code does not change the analysis of other code.

Model level: Core.tla (FrameCondition: a statement changes only what it assigns), Narrow.tla
(Restored: a conditional gives every variable its type back) and Blocks.tla (ScopeRestored,
OnlyShadowing) are model-checked: a fragment over fresh variables leaves the environment of
every other variable exactly as it found it, so the model predicts the host's rows unchanged.
Replay: fragments rendered from behaviours of those three models (over fresh variable names)
are inserted at statement boundaries that are not the last of their body, and appended, in
corpus and generated host programs; every output line that does not come from the fragment
must be unchanged apart from the row shift.
"""
import json
import re

from . import common as C
from . import core as K
from . import pool as P

CLOSERS = re.compile(r"^\s*(end|else|elsif|when|in|rescue|ensure|\}|\]|\))\b|^\s*[\}\]\)]")
# a few fragments that start with a literal / bracket (statement-boundary sensitivity); all over fresh names
EXTRA_FRAGMENTS = [
    ["[1, \"s\"].each do |vq_e|", "  vq_t = vq_e", "end"],
    ["vq_u = true ? 1 : \"s\"", "vq_u.to_s"],
    ["vq_a = [1, 2]", "vq_a.each { |vq_i| vq_i + 1 }"],
    ["vq_h = {a: 1}", "if vq_h.nil?", "  vq_k = 1", "else", "  vq_k = \"s\"", "end"],
]


KIND_FRAGMENTS = []      # indices (into the fragment list) of the per-kind fragments, filled by fragments()


def class_hosts(work, stats, rng, n):
    """spec/Classes.tla graphs (classes, modules, public / private / singleton methods) with their queries: hosts whose
    statement boundaries lie INSIDE method and class bodies of every visibility"""
    from . import classes as KL
    graphs = KL.emit(work, stats)
    out = []
    for gi, gr in enumerate(rng.sample(graphs, min(n, len(graphs)))):
        dl, _ = KL.render(gr, KL.PLAIN)
        ql, _ = KL.query_lines(gr, KL.PLAIN)
        out.append(("classes#%d" % gi, "\n".join(dl + ql) + "\n"))
    return out


def fragments(work, stats, rng, n, by_op=True):
    from . import c09, c10, c17
    frs = [list(f) for f in EXTRA_FRAGMENTS]
    cp = c09.emit(work, stats, 3, False, False)
    for p in rng.sample(cp, min(n, len(cp))):
        frs.append([K.stmt_src(st["stmt"], "_vq") for st in p])
    # one fragment per KIND of Core statement (the shortest behaviour that ends in it), whatever the sample holds
    per_kind = {}
    for p in sorted(cp, key=lambda q: (len(q), K.prog_key(q))):
        per_kind.setdefault(p[-1]["stmt"]["op"] if by_op else K.stmt_short(p[-1]["stmt"]), [K.stmt_src(st["stmt"], "_vq") for st in p])
    KIND_FRAGMENTS.clear()
    for kind in sorted(per_kind):
        KIND_FRAGMENTS.append(len(frs))
        frs.append(per_kind[kind])
    npg = c10.emit(work, stats, dict(MAXDEPTH=2, MAXIFS=2, ELSIF="FALSE", UNLESS="FALSE", STMT="FALSE", RICH="FALSE"))
    for p in rng.sample(npg, min(n, len(npg))):
        frs.append([l for l in c10.render(p, "_vq")[0] if not l.startswith("dbtp")])
    bp = c17.emit(work, stats, dict(MAXVARS=2, MAXDEPTH=1, MAXBLOCKS=1))
    for p in rng.sample(bp, min(n, len(bp))):
        frs.append([l for l in c17.render(p, "_vq")[0] if not l.startswith("dbtp")])
    return frs


def insertion_rows(text):
    """rows r: inserting BEFORE row r puts the fragment at a statement boundary that is not last in its body"""
    lines = text.split("\n")
    n = len(lines) - (1 if lines and lines[-1] == "" else 0)
    rows = []
    for r in P.boundaries(text):
        if r == n + 1:
            rows.append(r)               # appending at top level
            continue
        if r <= n and not CLOSERS.search(lines[r - 1]) and lines[r - 1].strip() != "":
            # comment lines do not make the fragment "not last": look at the first real line behind it
            k = r - 1
            while k < n and (lines[k].strip() == "" or lines[k].strip().startswith("#")):
                k += 1
            if k < n and CLOSERS.search(lines[k]):
                continue
            rows.append(r)
    return rows


def host_lines(parsed, lo, hi, shift):
    """drop output rows lo..hi (the fragment), shift rows above back"""
    out = []
    for k, f, r, m in parsed:
        if lo <= r <= hi:
            continue
        out.append((k, f, r - shift if r > hi else r, m))
    return out


def context(text, r, frag):
    """finding key: shape of the host line right behind the fragment + how the fragment ends"""
    lines = text.split("\n")
    nxt = lines[r - 1].strip() if 0 < r <= len(lines) else "<eof>"
    toks = re.findall(r"[A-Za-z_@$][A-Za-z0-9_?!]*|\S", nxt)[:3]
    KW = {"dbtp", "def", "class", "module", "if", "unless", "case", "while", "return", "end", "p", "puts", "self", "private"}
    shape = " ".join(t if (t in KW or not re.match(r"[A-Za-z_@$]", t)) else ("Const" if t[0].isupper() else "id") for t in toks)
    if frag[0].lstrip().startswith("["):
        # a fragment line that starts with `[` is read as an index into the value the previous host line ended on
        return "Dev_BracketLineContinuesPreviousStatement"
    # ... and so is the first host statement behind the fragment when IT starts with `[` (comment lines in between do not count)
    k = r - 1
    while 0 <= k < len(lines) and (lines[k].strip() == "" or lines[k].strip().startswith("#")):
        k += 1
    first = lines[k].strip() if 0 <= k < len(lines) else ""
    if first.startswith("[") or first.startswith("dbtp ["):
        return "Dev_BracketLineContinuesPreviousStatement"
    if re.search(r"^\s*in \^", text, re.M) and any(re.match(r"\s*(if|unless)\b", l) for l in frag):
        # a host with a pinned pattern (`in ^name => x`) analysed behind a conditional: the pattern variable turns untyped
        return "Dev_PinPatternAfterConditional"
    last = frag[-1].strip()
    ends = "end" if last in ("end", "}") else "assign" if re.match(r"^[a-z_0-9]+ = ", last) else "call"
    return "host-line[%s]/fragment-ends-with-%s" % (shape, ends)


def seams_pass(v, work, stats, cfg):
    """spec/Seams.tla: prev ; [fragment] ; next for every kind of statement end and statement start"""
    from . import seams as SM
    cases = SM.emit(work, stats, '{"lastValue", "exprFlag", "lastCall", "modifierCond"}')
    jobs, meta = [], []
    for c in cases:
        base, with_f, r, n = SM.programs(c)
        jobs.append({"cfg": cfg, "files": {"t.rb": base}, "args": ["t.rb", "-i"]})
        meta.append(None)
        jobs.append({"cfg": cfg, "files": {"t.rb": with_f}, "args": ["t.rb", "-i"]})
        meta.append((c, r, n))
    wr = C.Runner(work, "worker")
    try:
        results = wr.run_many(jobs)
    finally:
        wr.close()
    compared = 0
    for i, (m, job, res) in enumerate(zip(meta, jobs, results)):
        if m is None:
            continue
        c, r, n = m
        b = results[i - 1]
        if b.hung or b.crashed or b.get("exit") != 0:
            v.count("seam_base_fails_skipped")
            continue
        compared += 1
        want = C.parse_lines(b["out"])
        got = host_lines(C.parse_lines(res.get("out") or ""), r, r + n - 1, n) if not (res.hung or res.crashed) else [("!", "", 0, str(res.get("cls")))]
        if sorted(want) == sorted(got):
            continue
        v.count("differences")
        key = "seam:%s->%s" % (c["fragEnd"], c["next"])
        around = (c["fragEnd"], c["prev"])
        if c["next"] == "bracket-line":
            key = "Dev_BracketLineContinuesPreviousStatement"
        elif c["next"] == "if-line" and (around[0] == "while-modifier") != (around[1] == "while-modifier"):
            key = "Dev_WhileModifierConditionLeaks"
        elif c["next"] in ("ternary-op-line", "arith-line") and (around[0] == "not-call") != (around[1] == "not-call"):
            key = "Dev_NotCallLeaksLastCall"
        if v.seen(key):
            v.again(key)
            continue
        bb = C.confirm_alone(work, {"cfg": cfg, "files": jobs[i - 1]["files"], "args": job["args"]}, runs=1)[0]
        eb = C.confirm_alone(work, {"cfg": cfg, "files": job["files"], "args": job["args"]}, runs=1)[0]
        want2 = C.parse_lines(bb.get("out") or "")
        got2 = host_lines(C.parse_lines(eb.get("out") or ""), r, r + n - 1, n)
        if sorted(want2) == sorted(got2) and not eb.get("timeout") and not eb.get("panic"):
            v.count("not_reproduced_blackbox")
            continue
        diff = [x for x in got2 if x not in want2][:3] + [("missing",) + x for x in want2 if x not in got2][:3]
        files = C.job_files_for_replay({"cfg": cfg, "files": job["files"], "args": job["args"]})
        files["base/t.rb"] = jobs[i - 1]["files"]["t.rb"]
        v.fail(key, "seam: a fragment ending in %s before a host statement starting as %s (previous host statement: %s) changes "
                    "host output: %r" % (c["fragEnd"], c["next"], c["prev"], diff), files,
               detail={"base_out": bb.get("out"), "with_fragment_out": eb.get("out")})
    return {"seam_cases": len(cases), "seams_compared": compared}


def run(tier, work):
    v = C.Verdict("C11", tier, work)
    rng = C.tier_rng(tier, 11)
    stats = dict(states=0, transitions=0)
    # the model-level frame conditions
    checks = [("MCCore", "Core.cfg", dict(MAXSTMTS=3, DEV_OU="FALSE", EMIT="FALSE", RICH="FALSE", PROPS="FrameCondition")),
              ("MCNarrow", "Narrow.cfg", dict(MAXDEPTH=2, MAXIFS=2, ELSIF="FALSE", UNLESS="TRUE", STMT="TRUE", RICH="FALSE", EMIT="FALSE", OBJECTS="FALSE")),
              ("MCBlocks", "Blocks.cfg", dict(MAXVARS=2, MAXDEPTH=2, MAXBLOCKS=2, EMIT="FALSE"))]
    for mod, cfg, consts in checks[:2 if tier == "quick" else 3]:
        r = C.run_tlc(work, mod, cfg, workers=8, timeout=3000, heap="16g", consts=consts)
        if not r.ok:
            raise C.HarnessError("%s violates its frame condition: %s" % (mod, r.violation))
        stats["states"] += r.distinct
        stats["transitions"] += r.generated

    from . import c10
    cfg = c10.config(work)        # shipped + vf_* methods + narrowing helpers: one configuration for every run
    frs = fragments(work, stats, rng, 4 if tier == "quick" else 25, by_op=(tier == "quick"))   # thorough: one per called method too
    hosts = [(t, x) for t, x in P.corpus(rng, 45 if tier == "quick" else 585)]
    hosts += [(t, x) for t, x, c in P.generated(work, stats, rng, *((6, 4, 4) if tier == "quick" else (40, 25, 25)))]
    chosts = class_hosts(work, stats, rng, 4 if tier == "quick" else 10)
    full = {t for t, _ in chosts}          # hosts that get EVERY boundary x one fragment of every statement kind
    hosts += chosts
    jobs, meta = [], []
    for tag, text in hosts:
        base_i = len(jobs)
        jobs.append({"cfg": cfg, "files": {"t.rb": text}, "args": ["t.rb", "-i"]})
        meta.append(None)
        rows = insertion_rows(text)
        if tier == "quick" and len(rows) > 4 and tag not in full:
            rows = sorted(rng.sample(rows, 4))
        lines = text.split("\n")
        for r in rows:
            for fi in (KIND_FRAGMENTS if tag in full else
                       rng.sample(range(len(frs)), min(len(frs), 3 if tier == "quick" else 8))):
                fr = frs[fi]
                body = lines[:r - 1] + fr + lines[r - 1:]
                if r > len(lines) - (1 if lines[-1] == "" else 0) and not text.endswith("\n"):
                    body = lines + fr
                jobs.append({"cfg": cfg, "files": {"t.rb": "\n".join(body)}, "args": ["t.rb", "-i"]})
                meta.append((base_i, tag, r, len(fr), fi))
    wr = C.Runner(work, "worker")
    try:
        results = wr.run_many(jobs)
    finally:
        wr.close()
    compared = 0
    for m, job, res in zip(meta, jobs, results):
        if m is None:
            continue
        base_i, tag, r, n, fi = m
        b = results[base_i]
        if b.hung or b.crashed or b.get("exit") != 0:
            v.count("host_fails_skipped")
            continue
        compared += 1
        want = C.parse_lines(b["out"])
        got = host_lines(C.parse_lines(res.get("out") or ""), r, r + n - 1, n) if not (res.hung or res.crashed) else [("!", "", 0, str(res.get("cls")))]
        if sorted(want) == sorted(got):
            continue
        v.count("differences")
        key = context(jobs[base_i]["files"]["t.rb"], r, frs[fi])
        if v.seen(key):
            v.again(key)
            continue
        bb = C.confirm_alone(work, {"cfg": cfg, "files": jobs[base_i]["files"], "args": job["args"]}, runs=1)[0]
        eb = C.confirm_alone(work, {"cfg": cfg, "files": job["files"], "args": job["args"]}, runs=1)[0]
        want2 = C.parse_lines(bb.get("out") or "")
        got2 = host_lines(C.parse_lines(eb.get("out") or ""), r, r + n - 1, n)
        if sorted(want2) == sorted(got2) and not eb.get("timeout") and not eb.get("panic"):
            v.count("not_reproduced_blackbox")
            continue
        diff = [x for x in got2 if x not in want2][:3] + [("missing",) + x for x in want2 if x not in got2][:3]
        files = C.job_files_for_replay({"cfg": cfg, "files": job["files"], "args": job["args"]})
        files["base/t.rb"] = jobs[base_i]["files"]["t.rb"]
        v.fail(key, "%s: fragment %r inserted before row %d changes host output: %r" % (tag, frs[fi][:3], r, diff), files,
               detail={"base_out": bb.get("out"), "with_fragment_out": eb.get("out")})
    seam_info = seams_pass(v, work, stats, cfg)
    compared += seam_info["seams_compared"]
    v.sample({"fragment": frs[0]})
    v.sample({"fragment": frs[-1]})
    cov = {"states": stats["states"], "transitions": stats["transitions"], "traces_validated_against_impl": compared,
           "hosts": len(hosts), "class_hosts": len(chosts), "fragments": len(frs), "statement_kinds": len(KIND_FRAGMENTS), "insertions_compared": compared, "seams": seam_info,
           "rule": "fragments = behaviours of Core / Narrow / Blocks rendered over fresh names (+4 literal-first templates), "
                   "inserted at statement boundaries that are not last in their body, and appended; hosts = corpus + "
                   "generated programs + Classes.tla programs (there: every boundary x one fragment per Core statement kind); outputs (diagnostics and -i hints) of host rows compared as multisets; "
                   "Seams.tla: every (previous statement end, fragment end, next statement start) triple rendered with and "
                   "without the fragment"}
    return v.finish("model_checking", cov, assumptions=[
        "fragment variables (suffix _vq / prefix vq_) occur in no host program",
        "statement boundaries of corpus hosts found conservatively by the harness' scanner"])


def replay(work, path):
    return 0
