"""Concretiser and judge for spec/MethodBodies.tla programs (C15, second universe): one user method with
positional / defaulted / keyword parameters, explicit return, class-specific operations in the body,
call sites before / after the definition and inside another method."""
import collections
import json

from . import common as C
from . import core as K

LIT = {"Integer": "1", "String": "\"s\"", "Float": "1.5"}


def emit(work, stats, maxsites):
    progs = []
    r = C.run_tlc(work, "MCMethodBodies", "MethodBodies.cfg", workers=2, timeout=3000, heap="16g",
                  stream=lambda l: progs.append(json.loads(json.loads(l))),
                  consts={"EMIT": "TRUE", "MAXSITES": maxsites})
    if not r.ok:
        raise C.HarnessError("MethodBodies model violates its own properties: %s" % r.violation)
    stats["states"] += r.distinct
    stats["transitions"] += r.generated
    return progs


def call_src(p, s):
    args = [LIT[s["c"]]]
    if s["second"]:
        args.append(("kw: %s" % LIT[s["second"]]) if p["shape"] == "kw" else LIT[s["second"]])
    return "mm(%s)" % ", ".join(args)


def render(p):
    """-> (lines, info); rows are 1-based"""
    lines = []
    info = {"result_probe": {}, "arg_probe": None, "second_probe": None, "op_row": None, "site_row": {}}
    for i, s in enumerate(p["sites"]):
        if s["where"] == "before":
            lines.append("r%d = %s" % (i, call_src(p, s)))
            info["site_row"][i] = len(lines)
            lines.append("dbtp r%d" % i)
            info["result_probe"][i] = len(lines)
        elif s["where"] == "inner":
            lines += ["def w%d" % i, "  %s" % call_src(p, s), "end"]
            info["site_row"][i] = len(lines) - 1
    sig = {"pos": "arg", "opt": "arg, opt = %s" % LIT.get(p["dflt"], ""), "kw": "arg, kw: %s" % LIT.get(p["dflt"], "")}[p["shape"]]
    lines.append("def mm(%s)" % sig)
    info["def_row"] = len(lines)
    lines.append("  dbtp arg")
    info["arg_probe"] = len(lines)
    if p["shape"] != "pos":
        lines.append("  dbtp %s" % p["shape"])
        info["second_probe"] = len(lines)
    b = p["body"]
    if b == "param":
        lines.append("  arg")
    elif b == "second":
        lines.append("  %s" % p["shape"])
    elif b == "return":
        lines += ["  if arg == 1", "    return :sym", "  end", "  arg"]
    else:
        lines.append("  arg.%s" % b)
        info["op_row"] = len(lines)
    lines.append("end")
    for i, s in enumerate(p["sites"]):
        if s["where"] == "after":
            lines.append("r%d = %s" % (i, call_src(p, s)))
            info["site_row"][i] = len(lines)
            lines.append("dbtp r%d" % i)
            info["result_probe"][i] = len(lines)
        elif s["where"] == "inner":
            lines.append("r%d = w%d" % (i, i))
            lines.append("dbtp r%d" % i)
            info["result_probe"][i] = len(lines)
    return lines, info


def names_of(msgs):
    """first dbtp message of a row -> set of class names, 'untyped', or None"""
    if not msgs:
        return None
    got = K.parse_ti_type(msgs[0])
    if got is None:
        return None
    if got[0] == "untyped":
        return "untyped"
    if got[0] != "t":
        return None
    out = set()
    for a in got[1]:
        out.add(a[1] if a[0] == "c" else ("Array" if a[0] == "arr" else "Hash"))
    return out


def parse_signature(text):
    """'(T, kw: default U) -> R [i/public]' -> ([type names or 'untyped' or None per parameter], result names)"""
    text = text.strip()
    if not text.startswith("("):
        return None
    depth, end = 0, None
    for i, ch in enumerate(text):
        if ch == "(":
            depth += 1
        elif ch == ")":
            depth -= 1
            if depth == 0:
                end = i
                break
    if end is None or "->" not in text[end:]:
        return None
    inner, rest = text[1:end], text[end + 1:].split("->", 1)[1]
    if "[" in rest:
        rest = rest[:rest.rindex("[")]
    parts, cur, d = [], "", 0
    for ch in inner:
        if ch == "<":
            d += 1
        elif ch == ">":
            d -= 1
        if ch == "," and d == 0:
            parts.append(cur)
            cur = ""
        else:
            cur += ch
    if cur.strip():
        parts.append(cur)
    params = []
    for part in parts:
        t = part.strip()
        if ":" in t.split("<")[0]:
            t = t.split(":", 1)[1].strip()
        if t.startswith("default "):
            t = t[len("default "):]
        params.append(names_of([t]))
    rest = rest.strip()
    if rest.startswith("default "):      # a returned defaulted parameter keeps its 'default' marker in the hint
        rest = rest[len("default "):]
    return params, names_of([rest])


def where_shape(p):
    return "+".join(sorted({s["where"] for s in p["sites"]}))


def judge(p, info, out):
    diag = collections.defaultdict(list)
    hints = collections.defaultdict(list)
    for kind, f, row, msg in C.parse_lines(out):
        if kind == "d":
            diag[row].append(msg)
        elif kind == "h":
            hints[row].append(msg)
    bad = []
    ws = where_shape(p)
    # the -i signature hint of the definition (present when run with -i)
    sig = [parse_signature(m) for m in hints.get(info["def_row"], []) if m.startswith("(")]
    if sig and sig[0] is not None:
        params, ret = sig[0]
        wants = [set(p["argT"])] + ([set(p["secondT"])] if p["shape"] != "pos" else [])
        if len(params) != len(wants):
            bad.append(("signature-arity:%s" % p["shape"], "signature hint %r has %d parameters" % (hints[info["def_row"]][:1], len(params))))
        else:
            for name, got, want in zip(["arg", p["shape"]], params, wants):
                if got != "untyped" and not (got is not None and want <= got):
                    bad.append(("signature-param-not-covered:%s:sites-%s" % (name, ws),
                                "signature hint %r: parameter %s does not cover %s" % (hints[info["def_row"]][:1], name, sorted(want))))
        if p["retT"] and ret != set(p["retT"]):
            bad.append(("signature-result-differs:body-%s" % p["body"],
                        "signature hint %r: the model's result is %s" % (hints[info["def_row"]][:1], sorted(p["retT"]))))
    elif info.get("with_hints"):
        bad.append(("signature-hint-missing:%s" % p["shape"], "no -i signature hint on the def row"))
    # parameter types cover what the call sites pass
    got = names_of(diag.get(info["arg_probe"]))
    want = set(p["argT"])
    if got != "untyped" and not (got is not None and want <= got):
        bad.append(("param-not-covered:arg:sites-%s" % ws,
                    "parameter arg is reported as %r, the call sites pass %s" % (diag.get(info["arg_probe"], [])[:1], sorted(want))))
    if info["second_probe"]:
        got = names_of(diag.get(info["second_probe"]))
        want = set(p["secondT"])
        if got != "untyped" and not (got is not None and want <= got):
            bad.append(("param-not-covered:%s:sites-%s" % (p["shape"], ws),
                        "parameter %s is reported as %r, default and call sites give %s" % (
                            p["shape"], diag.get(info["second_probe"], [])[:1], sorted(want))))
    # the operation in the body
    if info["op_row"]:
        op_msgs = [m for r, ms in diag.items() for m in ms if p["body"] in m and "defined" in m]
        if p["allFail"] and not op_msgs:
            bad.append(("op-failing-for-all-not-reported:%s:sites-%s" % (p["body"], ws),
                        "arg.%s fails for every class passed (%s) but nothing is reported" % (p["body"], sorted(p["argT"]))))
        if p["allOk"] and op_msgs:
            bad.append(("op-fine-for-all-reported:%s:sites-%s" % (p["body"], ws),
                        "arg.%s exists for every class passed (%s) but ti reports %r" % (p["body"], sorted(p["argT"]), op_msgs[:1])))
    # results
    want = set(p["retT"])
    if want:
        for i, s in enumerate(p["sites"]):
            got = names_of(diag.get(info["result_probe"][i]))
            if got != want:
                bad.append(("result-differs:body-%s:site-%s" % (p["body"], s["where"]),
                            "result of %s (%s the definition) is reported as %r, the model says %s" % (
                                call_src(p, s), s["where"], diag.get(info["result_probe"][i], [])[:1], sorted(want))))
    return bad
