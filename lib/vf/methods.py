"""Concretiser for spec/Methods.tla programs (C15, C24)."""
import json

from . import common as C

LIT = {"Integer": "1", "String": "\"s\"", "Float": "1.5"}


def emit(work, stats, nmethods, maxsites):
    progs = []

    def feed(line):
        progs.append(json.loads(json.loads(line)))
    r = C.run_tlc(work, "MCMethods", "Methods.cfg", workers=1, timeout=3000, stream=feed, heap="16g",
                  consts={"EMIT": "TRUE", "NMETHODS": nmethods, "MAXSITES": maxsites})
    if not r.ok:
        raise C.HarnessError("Methods model violates its own properties: %s" % r.violation)
    stats["states"] += r.distinct
    stats["transitions"] += r.generated
    return progs


def render(p, wrap_class=None):
    """-> (lines, info): info = {"def_row": {m: row}, "param_probe": {m: row}, "body_call_row": {m: row of the call in m's body},
                                 "site_rows": [row of each top-level site], "result_probe": [row of dbtp of each site's result]}"""
    lines = []
    info = {"def_row": {}, "param_probe": {}, "body_call_row": {}, "site_rows": [], "result_probe": []}
    ind = ""
    if wrap_class:
        lines.append("class %s" % wrap_class)
        ind = "  "
    for m in p["order"]:
        b = p["body"][m]
        lines.append(ind + "def %s(arg)" % m)
        info["def_row"][m] = len(lines)
        lines.append(ind + "  dbtp arg")
        info["param_probe"][m] = len(lines)
        if b["k"] == "param":
            lines.append(ind + "  arg")
        elif b["k"] == "lit":
            lines.append(ind + "  \"lit\"")
        else:
            lines.append(ind + "  %s(arg)" % b["callee"])
            info["body_call_row"][m] = len(lines)
        lines.append(ind + "end")
    if wrap_class:
        lines.append("end")
    for i, s in enumerate(p["sites"]):
        lines.append("r%d = %s(%s)" % (i, s["callee"], LIT[s["c"]]))
        info["site_rows"].append(len(lines))
        lines.append("dbtp r%d" % i)
        info["result_probe"].append(len(lines))
    return lines, info
