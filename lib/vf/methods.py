"""Concretiser for spec/Methods.tla programs (C15, C24)."""
import json

from . import common as C

LIT = {"Integer": "1", "String": "\"s\"", "Float": "1.5"}


def emit(work, stats, nmethods, maxsites, ctxs=("plain",)):
    progs = []

    def feed(line):
        progs.append(json.loads(json.loads(line)))
    r = C.run_tlc(work, "MCMethods", "Methods.cfg", workers=1, timeout=3000, stream=feed, heap="16g",
                  consts={"EMIT": "TRUE", "NMETHODS": nmethods, "MAXSITES": maxsites,
                          "CTXS": "{" + ",".join(json.dumps(c) for c in ctxs) + "}"})
    if not r.ok:
        raise C.HarnessError("Methods model violates its own properties: %s" % r.violation)
    stats["states"] += r.distinct
    stats["transitions"] += r.generated
    return progs


def render(p, wrap_class=None):
    """-> (lines, info): info = {"def_row": {m: row}, "param_probe": {m: row}, "body_call_row": {m: row of the call in m's body},
                                 "site_rows": [row of each top-level site], "result_probe": [row of dbtp of each site's result]}"""
    lines = []
    info = {"def_row": {}, "param_probe": {}, "body_call_row": {}, "site_rows": [], "result_probe": []}
    ind = ""
    if wrap_class:
        lines.append("class %s" % wrap_class)
        ind = "  "
    for m in p["order"]:
        b = p["body"][m]
        lines.append(ind + "def %s(arg)" % m)
        info["def_row"][m] = len(lines)
        lines.append(ind + "  dbtp arg")
        info["param_probe"][m] = len(lines)
        if b["k"] == "param":
            lines.append(ind + "  arg")
        elif b["k"] == "lit":
            lines.append(ind + "  \"lit\"")
        else:
            lines.append(ind + "  %s(arg)" % b["callee"])
            info["body_call_row"][m] = len(lines)
        lines.append(ind + "end")
    if wrap_class:
        lines.append("end")
    for i, s in enumerate(p["sites"]):
        call = "%s(%s)" % (s["callee"], LIT[s["c"]])
        ctx = s.get("ctx", "plain")
        if ctx == "plain":
            lines.append("r%d = %s" % (i, call))
            info["site_rows"].append(len(lines))
            lines.append("dbtp r%d" % i)
            info["result_probe"].append(len(lines))
            continue
        if ctx == "if-cond":
            lines += ["if %s" % call, "  r%d = 1" % i, "end"]
            info["site_rows"].append(len(lines) - 2)
        elif ctx == "while-cond":
            lines += ["while %s" % call, "  r%d = 1" % i, "end"]
            info["site_rows"].append(len(lines) - 2)
        elif ctx == "arg":
            lines.append("r%d = [%s]" % (i, call))
            info["site_rows"].append(len(lines))
        elif ctx == "twice":        # two call sites of the same method on one row
            lines.append("r%d = [%s, %s]" % (i, call, call))
            info["site_rows"].append(len(lines))
        elif ctx == "block":
            lines += ["[%s].each do |bv%d|" % (LIT[s["c"]], i), "  %s(bv%d)" % (s["callee"], i), "end"]
            info["site_rows"].append(len(lines) - 1)
        info["result_probe"].append(None)
    return lines, info
