"""C19 - config file names and splitting do not matter.

spec/Config.tla models the loader (methods of a file are filed first, then the class's edges;
a signature whose name is already declared becomes an overload).  For each abstract
configuration (a set of files: parent/child classes, overloads, one class split over files) TLC
explores EVERY load order and checks OrderIndependent on the intended model, and on the as-is
model (lookup walks the parents known so far) to predict which configurations are order
dependent.  Replay: every abstract configuration is written out under every file order (file
names decide the order) and a probe program calling every declared method with every argument
class must print the same; the shipped configuration is loaded under random file renamings and
corpus programs must print the same.
"""
import itertools
import json
import os

from . import common as C
from . import pool as P

SIG = {"I": "Int", "S": "String", "F": "Float"}
LITS = {"I": "1", "S": "\"s\"", "F": "1.5"}


def file_sets():
    """abstract configurations: list of (name, files); file = dict(cls, extends, methods[(name, sig)], new)"""
    F = lambda cls, ext, ms: {"cls": cls, "ext": ext, "methods": ms}  # noqa: E731
    return [
        ("parent-child", [F("P", [], [("m", "I")]), F("C", ["P"], [("m", "S")])]),
        ("overloads-one-class", [F("P", [], [("m", "I")]), F("P", [], [("m", "S")])]),
        ("child-split-extends-first", [F("P", [], [("m", "I")]), F("C", ["P"], []), F("C", [], [("m", "S")])]),
        ("child-split-other-method", [F("P", [], [("m", "I")]), F("C", ["P"], [("n", "I")]), F("C", [], [("m", "S")])]),
        ("grandchild", [F("P", [], [("m", "I")]), F("C", ["P"], []), F("G", ["C"], [("m", "S")])]),
        ("grandchild-split", [F("P", [], [("m", "I")]), F("C", ["P"], []), F("G", ["C"], []), F("G", [], [("m", "F")])]),
        ("two-parents", [F("P", [], [("m", "I")]), F("Q", [], [("m", "S")]), F("C", ["P", "Q"], [])]),
        ("sibling-overloads-split", [F("P", [], [("m", "I")]), F("C", ["P"], [("m", "S")]), F("C", [], [("m", "F")])]),
    ]


def tla_files(files):
    out = []
    for i, f in enumerate(files):
        ms = ", ".join('[name |-> "%s", sig |-> "%s"]' % (n, s) for n, s in f["methods"])
        ext = ", ".join('"%s"' % e for e in f["ext"])
        out.append('[id |-> %d, class |-> "%s", extends |-> <<%s>>, methods |-> <<%s>>]' % (i + 1, f["cls"], ext, ms))
    return "{" + ",\n   ".join(out) + "}"


def model_check(work, stats, files, walk):
    mod = ("---- MODULE MCConfigGen ----\nEXTENDS Config\nGenFiles == %s\n====\n" % tla_files(files))
    r = C.run_tlc(work, "MCConfigGen", "Config.cfg", workers=2, timeout=600, files={"MCConfigGen.tla": mod},
                  consts={"WALK": "TRUE" if walk else "FALSE"})
    stats["states"] += r.distinct
    stats["transitions"] += r.generated
    return r.ok


def cfg_json(f):
    cls = "Vf" + f["cls"]
    d = {"frame": "Builtin", "class": cls,
         "instance_methods": [{"name": n, "arguments": [{"type": [SIG[s]]}], "return_type": {"type": [SIG[s]]}} for n, s in f["methods"]],
         "class_methods": [{"name": "new", "arguments": [], "return_type": {"type": [cls]}}]}
    if f["ext"]:
        d["extends"] = ["Vf" + e for e in f["ext"]]
    if f.get("prop"):
        d["instance_properties"] = [{"name": "label", "type": [SIG[f["prop"]]], "access": "accessor"}]
    return d


def probe_program(files):
    classes = sorted({f["cls"] for f in files})
    names = sorted({n for f in files for n, s in f["methods"]})
    lines = []
    for c in classes:
        lines.append("o%s = Vf%s.new" % (c.lower(), c))
    for c in classes:
        for n in names:
            for s in "ISF":
                lines.append("dbtp o%s.%s(%s)" % (c.lower(), n, LITS[s]))
    return "\n".join(lines) + "\n"


def write_config(work, files, order, tag):
    d = work.sub("c19-%s" % tag)
    for f in os.listdir(C.SHIPPED_CFG):
        os.symlink(os.path.join(C.SHIPPED_CFG, f), os.path.join(d, f))
    for pos, idx in enumerate(order):
        json.dump(cfg_json(files[idx]), open(os.path.join(d, "zz_vf_%d_%d.json" % (pos, idx)), "w"))
    return d


def rows_of(out):
    d = {}
    for kind, f, row, msg in C.parse_lines(out):
        d.setdefault(row, []).append(msg)
    return d


def classify(name, files, asis_predicts, out_a, out_b):
    """Which known deviation explains the difference between two load orders?"""
    ra, rb = rows_of(out_a), rows_of(out_b)
    split_overloads = any(
        len({i for i, f in enumerate(files) if f["cls"] == c and any(n == m for n, s in f["methods"])}) > 1
        for c in {f["cls"] for f in files} for m in {n for f in files for n, s in f["methods"]})
    status_differs = False
    for row in set(ra) | set(rb):
        ea = any("type mismatch" in m or "not defined" in m or "arguments" in m for m in ra.get(row, []))
        eb = any("type mismatch" in m or "not defined" in m or "arguments" in m for m in rb.get(row, []))
        if ra.get(row) != rb.get(row) and ea != eb:
            status_differs = True
    if status_differs:
        return "Dev_SplitClassOverloadsParent" if asis_predicts else "order-dependent-acceptance:%s" % name
    if split_overloads:
        return "Dev_OverloadOrderFollowsLoadOrder"
    return "order-dependent-messages:%s" % name


def config_sets(v, work, stats, rng, tier):
    cases = []
    r = C.run_tlc(work, "MCConfigSets", "ConfigSets.cfg", workers=2, timeout=900,
                  stream=lambda l: cases.append(json.loads(json.loads(l))))
    if not r.ok:
        raise C.HarnessError("MCConfigSets failed: %s" % r.violation)
    stats["states"] += r.distinct
    stats["transitions"] += r.generated
    cases.sort(key=lambda c: json.dumps(c, sort_keys=True))
    if tier == "quick":
        split = [c for c in cases if c["split"]]
        cases = rng.sample(split, 220) + rng.sample([c for c in cases if not c["split"]], 80)
    jobs, meta = [], []
    for ci, c in enumerate(cases):
        files = [{"cls": f["cls"], "ext": ["P"] if f["ext"] else [], "methods": sorted((d["name"], d["sig"]) for d in f["methods"]),
                  "prop": f.get("prop", "")}
                 for f in sorted(c["files"], key=lambda f: json.dumps(f, sort_keys=True))]
        prog = probe_program(files)
        if any(f["prop"] for f in files):
            prog += "".join("dbtp o%s.label\n" % cl.lower() for cl in sorted({f["cls"] for f in files}))
        for order in itertools.permutations(range(len(files))):
            cfg = write_config(work, files, order, "set%d-%s" % (ci, "".join(map(str, order))))
            jobs.append({"cfg": cfg, "files": {"t.rb": prog}, "args": ["t.rb"]})
            meta.append((ci, files, order))
    wr = C.Runner(work, "worker")
    try:
        results = wr.run_many(jobs)
    finally:
        wr.close()
    by = {}
    for (ci, files, order), job, res in zip(meta, jobs, results):
        if res.hung or res.crashed or res.get("exit") != 0:
            raise C.HarnessError("probe program failed under generated configuration %d %s: %s" % (ci, order, res.get("cls")))
        by.setdefault(ci, []).append((order, res["out"], job, files))
    compared = 0
    for ci, runs in by.items():
        c = cases[ci]
        ref_order, ref_out, ref_job, files = runs[0]
        shape = "%s%d-files" % ("split-child/" if c["split"] else "", len(files))
        # (1) against the reference resolution, in every order
        names = sorted({n for f in files for n, s_ in f["methods"]})
        classes = sorted({f["cls"] for f in files})
        for order, out, job, _ in runs:
            rows = rows_of(out)
            row = len(classes)
            for cl in classes:
                for n in names:
                    for a in "ISF":
                        row += 1
                        compared += 1
                        msgs = rows.get(row, [])
                        err = any("type mismatch" in m or "not defined" in m or "arguments" in m for m in msgs)
                        want_ok = a in c["res"][cl][n]
                        if want_ok != (not err):
                            key = "resolution:%s:%s" % (shape, "inherited" if (cl == "C" and not any(f["cls"] == "C" and any(x == n for x, _s in f["methods"]) for f in files)) else "own")
                            if v.seen(key):
                                v.again(key)
                                continue
                            b = C.confirm_alone(work, {"cfg": job["cfg"], "files": job["files"], "args": ["t.rb"]}, runs=1)[0]
                            msgs2 = rows_of(b.get("out") or "").get(row, [])
                            err2 = any("type mismatch" in m or "not defined" in m or "arguments" in m for m in msgs2)
                            if want_ok == (not err2):
                                v.count("not_reproduced_blackbox")
                                continue
                            v.fail(key, "configuration %s loaded in file order %s: o%s.%s(%s) %s, the declarations resolve to %s" % (
                                json.dumps(files), order, cl.lower(), n, LITS[a], "is rejected: %r" % msgs2[:1] if err2 else "is accepted",
                                c["res"][cl][n]), C.job_files_for_replay({"cfg": job["cfg"], "files": job["files"], "args": ["t.rb"]}))
        # (1b) the instance property a read sees: the class's own declaration, else the parent's
        if any(f["prop"] for f in files):
            PT = {"I": "Integer", "S": "String"}
            for order, out, job, _ in runs:
                rows = rows_of(out)
                row = len(classes) + len(classes) * len(names) * 3
                for cl in classes:
                    row += 1
                    compared += 1
                    want = sorted(PT[x] for x in c["prop"][cl])
                    msgs = rows.get(row, [])
                    got_ok = bool(want) and msgs[:1] == want[:1] and len(want) == 1
                    if not want:
                        got_ok = any("not defined" in m for m in msgs) or msgs == ["Unknown"] or msgs == ["untyped"] or not msgs
                    if got_ok:
                        continue
                    key = "property:%s:%s" % (shape, "inherited" if (cl == "C" and not any(f["cls"] == "C" and f["prop"] for f in files)) else "own")
                    if v.seen(key):
                        v.again(key)
                        continue
                    b = C.confirm_alone(work, {"cfg": job["cfg"], "files": job["files"], "args": ["t.rb"]}, runs=1)[0]
                    msgs2 = rows_of(b.get("out") or "").get(row, [])
                    if (bool(want) and msgs2[:1] == want[:1]) or (not want and msgs2 == msgs and got_ok):
                        v.count("not_reproduced_blackbox")
                        continue
                    v.fail(key, "configuration %s loaded in file order %s: `dbtp o%s.label` says %r, the declarations give %s" % (
                        json.dumps(files), order, cl.lower(), msgs2[:1], want or "no such property"),
                        C.job_files_for_replay({"cfg": job["cfg"], "files": job["files"], "args": ["t.rb"]}))
        # (2) every order prints the same
        for order, out, job, _ in runs[1:]:
            compared += 1
            if out == ref_out:
                continue
            key = classify("generated:" + shape, files, False, ref_out, out)
            if v.seen(key):
                v.again(key)
                continue
            a = C.confirm_alone(work, {"cfg": ref_job["cfg"], "files": ref_job["files"], "args": ["t.rb"]}, runs=1)[0]
            b = C.confirm_alone(work, {"cfg": job["cfg"], "files": job["files"], "args": ["t.rb"]}, runs=1)[0]
            if a.get("out") == b.get("out"):
                v.count("not_reproduced_blackbox")
                continue
            la, lb = a["out"].split("\n"), b["out"].split("\n")
            diff = [(x, y) for x, y in zip(la, lb) if x != y][:3]
            fl = C.job_files_for_replay({"cfg": job["cfg"], "files": job["files"], "args": ["t.rb"]})
            fl["other-order/CONFIG"] = ref_job["cfg"]
            v.fail(key, "configuration %s: file order %s and %s give different output: %r" % (json.dumps(files), ref_order, order, diff), fl)
    return compared


def run(tier, work):
    v = C.Verdict("C19", tier, work)
    rng = C.tier_rng(tier, 19)
    stats = dict(states=0, transitions=0)
    sets = file_sets()
    jobs, meta = [], []
    predicted = {}
    for name, files in sets:
        if not model_check(work, stats, files, walk=False):
            raise C.HarnessError("intended Config model is order dependent on %s" % name)
        predicted[name] = not model_check(work, stats, files, walk=True)    # as-is: order dependent?
        prog = probe_program(files)
        for order in itertools.permutations(range(len(files))):
            cfg = write_config(work, files, order, "%s-%s" % (name, "".join(map(str, order))))
            jobs.append({"cfg": cfg, "files": {"t.rb": prog}, "args": ["t.rb"]})
            meta.append((name, order))
    if not any(predicted.values()):
        raise C.HarnessError("self-test: the as-is Config model is order independent everywhere (vacuous)")
    wr = C.Runner(work, "worker")
    try:
        results = wr.run_many(jobs)
    finally:
        wr.close()
    by = {}
    for (name, order), job, res in zip(meta, jobs, results):
        if res.hung or res.crashed or res.get("exit") != 0:
            raise C.HarnessError("probe program failed under config %s %s: %s" % (name, order, res.get("cls")))
        by.setdefault(name, []).append((order, res["out"], job))
    compared = 0
    for name, runs in by.items():
        ref_order, ref_out, ref_job = runs[0]
        for order, out, job in runs[1:]:
            compared += 1
            if out == ref_out:
                continue
            key = classify(name, dict(sets)[name], predicted[name], ref_out, out)
            if v.seen(key):
                v.again(key)
                continue
            a = C.confirm_alone(work, {"cfg": ref_job["cfg"], "files": ref_job["files"], "args": ["t.rb"]}, runs=1)[0]
            b = C.confirm_alone(work, {"cfg": job["cfg"], "files": job["files"], "args": ["t.rb"]}, runs=1)[0]
            if a.get("out") == b.get("out"):
                v.count("not_reproduced_blackbox")
                continue
            la, lb = a["out"].split("\n"), b["out"].split("\n")
            diff = [(x, y) for x, y in zip(la, lb) if x != y][:3]
            files = C.job_files_for_replay({"cfg": job["cfg"], "files": job["files"], "args": ["t.rb"]})
            files["other-order/CONFIG"] = ref_job["cfg"]
            v.fail(key, "configuration %s: file order %s and %s give different output: %r" % (name, ref_order, order, diff), files)
    # spec/MCConfigSets.tla: every small configuration (P, C extends P; 2-3 files; the child possibly split, its extends in any
    # of its files) under every file order; relational (same output) and against the order-free reference resolution
    compared += config_sets(v, work, stats, rng, tier)
    # the shipped configuration under random renamings, against corpus programs
    progs = P.corpus(rng, 25 if tier == "quick" else 150)
    nperm = 6 if tier == "quick" else 30
    base_jobs = [{"files": {"t.rb": x}, "args": ["t.rb", "-i"], "tag": t} for t, x in progs]
    wr = C.Runner(work, "worker")
    try:
        base = wr.run_many(base_jobs)
        names = sorted(f for f in os.listdir(C.SHIPPED_CFG) if f.endswith(".json"))
        for k in range(nperm):
            d = work.sub("c19-perm%d" % k)
            perm = names[:]
            rng.shuffle(perm)
            for i, f in enumerate(perm):
                os.symlink(os.path.join(C.SHIPPED_CFG, f), os.path.join(d, "%03d_%s" % (i, f)))
            pj = [{"cfg": d, "files": j["files"], "args": j["args"]} for j in base_jobs]
            res = wr.run_many(pj)
            for j, b, r in zip(base_jobs, base, res):
                if b.hung or b.crashed:
                    continue
                compared += 1
                if b.get("out") != r.get("out"):
                    key = "shipped-config-order:%s" % j["tag"]
                    a2 = C.confirm_alone(work, {"files": j["files"], "args": j["args"]}, runs=1)[0]
                    b2 = C.confirm_alone(work, {"cfg": d, "files": j["files"], "args": j["args"]}, runs=1)[0]
                    if a2.get("out") == b2.get("out"):
                        v.count("not_reproduced_blackbox")
                        continue
                    files = C.job_files_for_replay({"cfg": d, "files": j["files"], "args": j["args"]})
                    files["input/ORDER"] = "\n".join(perm)
                    v.fail(key, "shipped configuration loaded in order %s...: %s prints differently" % (perm[:4], j["tag"]), files)
    finally:
        wr.close()
    v.sample({"configuration": sets[2][0], "files": sets[2][1], "as_is_model_says_order_dependent": predicted[sets[2][0]]})
    cov = {"states": stats["states"], "transitions": stats["transitions"], "traces_validated_against_impl": compared,
           "abstract_configurations": len(sets), "as_is_predictions": predicted, "shipped_config_permutations": nperm,
           "corpus_programs": len(progs),
           "rule": "8 abstract configurations (parent/child, overloads, split classes, two parents) x every file order; every MCConfigSets "
                   "configuration (P, C extends P in 2-3 files, child possibly split, extends in any of its files) x every file order, "
                   "compared across orders and with the order-free reference resolution; "
                   "shipped configuration x random file renamings x corpus programs"}
    return v.finish("model_checking", cov, assumptions=["file order = lexicographic order of file names (filepath.Glob)"])


def replay(work, path):
    return 0
