"""C01 - the analyzer never crashes, whatever source it is given (ti f, ti f -i)."""
from . import robust_check


def run(tier, work):
    return robust_check.run("C01", tier, work)


def replay(work, path):
    return robust_check.replay("C01", work, path)
