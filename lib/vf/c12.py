"""C12 - analysing a program never alters the configured builtin signatures.

In every specification of this framework the configured method table is a constant: no action
of Run / Core / Narrow / Blocks / Binder changes it.  The binding: the verif hooks digest every
configured TFrame entry (arguments, return type, flags, overloads, block parameters) and every
builtin type template after each round / each top-level statement and emit a `mutation` event
when one changes; TraceRun.tla has no action for such an event, so TLC rejects the trace.
Black-box cross-check: probes that call every understood configured method on fresh literal
receivers must print the same types after any program as they do alone.
"""
import collections
import json
import re

from . import common as C
from . import robust as R
from . import pool as P
from . import confsweep as S
from . import binder as B

REOPENS = re.compile(r"^\s*(class|module)\s+(Integer|String|Array|Hash|Float|Symbol|NilClass|Range|Object|Kernel|Bool|Proc|Comparable|Enumerable)\b", re.M)


def classify(e):
    before = e.get("before") or ""
    if " ast=true " in before and " ast=false " in (e.get("after") or "") and "ty=263" in (e.get("after") or ""):
        return "Dev_RestParamEntryOverwritten"
    entry = re.sub(r"var\d+", "var#", e.get("entry") or "?")
    return "mutation:%s" % entry


def probes(work, stats):
    """-> (lines, rows) one `dbtp r.meth(args)` per understood method of the shipped configuration"""
    meths, _ = S.methods_of(C.SHIPPED_CFG)
    lines = []
    for (cls, name), decls in meths.items():
        if name in S.OPERATORS or (cls, name) in S.blockish:
            continue
        ok = S.cases_for(cls, name, decls)[0][1]
        lines.append("vfr = %s" % S.RECV[cls])
        lines.append("dbtp " + S.call_src("vfr", name, ok))
    lines += ["vfw = 3", "vfz = 2 * vfw", "dbtp vfz", "vfs = \"a\" + \"b\"", "dbtp vfs", "vfa = [1, 2]", "dbtp vfa.first"]
    return lines


IDENT_OK = re.compile(r"^[a-z_][a-z0-9_]*[?!]?$")


def stress_programs(rng, tier):
    """Programs that drive every understood method of the shipped configuration through the call paths that hand
    out (parts of) the configured method types: union receivers, safe navigation, assignment to a call's result,
    growth of a call's result by push / << / concat, wrong arguments.  One statement group per method, grouped
    40 to a program; every statement starts from fresh literals."""
    meths, _ = S.methods_of(C.SHIPPED_CFG)
    others = {"Integer": ["String", "Float"], "String": ["Integer", "Array"], "Float": ["Integer", "String"],
              "Array": ["String", "Hash"], "Hash": ["Array", "String"], "Symbol": ["String", "Integer"],
              "NilClass": ["Integer", "String"], "Range": ["Array", "Integer"]}
    groups = []
    for (cls, name), decls in meths.items():
        cases = S.cases_for(cls, name, decls)
        ok = cases[0][1]
        bad = [a for k, a in cases if k.startswith("foreign-arg")][:1]
        g = []
        for o in others[cls]:
            g += ["vfu = true ? %s : %s" % (S.RECV[cls], S.RECV[o]), S.call_src("vfu", name, ok),
                  "vfu = true ? %s : %s" % (S.RECV[o], S.RECV[cls]), "vfq = " + S.call_src("vfu", name, ok)]
        g += ["vfr = %s" % S.RECV[cls], "vfq = " + S.call_src("vfr", name, ok), "vfq.push(1.5)", "vfq << :sym"]
        if name not in S.OPERATORS and not name.endswith("=") and ok == []:
            g += ["vfr = %s" % S.RECV[cls], "vfq = vfr&.%s" % name]
        g += ["vfr = %s" % S.RECV[cls], S.call_src("vfr", name, ok) + " = \"s\""]
        if name not in S.OPERATORS:
            # element / attribute assignment and compound assignment on the call's result
            g += ["vfr = %s" % S.RECV[cls], S.call_src("vfr", name, ok) + "[0] = \"s\"",
                  "vfr = %s" % S.RECV[cls], "vfq = " + S.call_src("vfr", name, ok), "vfq ||= 1.5", "vfq += 1"]
        for a in bad:
            g += ["vfr = %s" % S.RECV[cls], S.call_src("vfr", name, a)]
        groups.append(("stress:%s#%s" % (cls, name), g))
    # user classes that include / extend a configured module and call its methods with implicit self, in both orders
    # (a lookup through an include or extend edge must mark a COPY of the configured method type)
    import json as _json
    import os as _os
    modules = {}
    for f in sorted(_os.listdir(C.SHIPPED_CFG)):
        try:
            d = _json.load(open(_os.path.join(C.SHIPPED_CFG, f)))
        except Exception:
            continue
        for e in d.get("extends") or []:
            if "::" not in e and e[:1].isupper():
                modules.setdefault(e, None)
    for f in sorted(_os.listdir(C.SHIPPED_CFG)):
        try:
            d = _json.load(open(_os.path.join(C.SHIPPED_CFG, f)))
        except Exception:
            continue
        if d.get("class") in modules and d.get("frame") == "Builtin" and modules[d["class"]] is None:
            modules[d["class"]] = [m["name"] for m in d.get("instance_methods") or [] if IDENT_OK.match(m["name"])]
    for mod, meths in sorted(modules.items()):
        for name in (meths or [])[:12]:
            inc = ["class VfBag%s" % name.title().replace("_", ""), "  include %s" % mod, "  def vf_use", "    vfq = %s { |vfx| 1 }" % name, "    vfq", "  end", "end"]
            ext = ["class VfShelf%s" % name.title().replace("_", ""), "  extend %s" % mod, "  def self.vf_use", "    vfq = %s { |vfx| 1 }" % name, "    vfq", "  end", "end"]
            groups.append(("stress:include-then-extend:%s#%s" % (mod, name), inc + ext))
            groups.append(("stress:extend-then-include:%s#%s" % (mod, name),
                           [l.replace("VfShelf", "VfRack").replace("VfBag", "VfSack") for l in ext + inc]))
    if tier == "quick":
        rng.shuffle(groups)
    progs = []
    size = 25
    for s_ in range(0, len(groups), size):
        part = groups[s_:s_ + size]
        lines = ["foo = 1.5"]
        for tag, g in part:
            lines += g
        progs.append(("stress:%s.." % part[0][0].split(":", 1)[1], "\n".join(lines) + "\n", None))
        _GROUPS[progs[-1][0]] = part
    return progs


_GROUPS = {}


def run(tier, work):
    v = C.Verdict("C12", tier, work)
    rng = C.tier_rng(tier, 12)
    stats = dict(states=0, transitions=0, traces=0, trace_events=0)
    r = C.run_tlc(work, "MCRun", "Run_mc.cfg", workers=4, timeout=600)
    if not r.ok:
        raise C.HarnessError("Run.tla violates its own properties: %s" % r.violation)
    stats["states"] += r.distinct
    stats["transitions"] += r.generated

    cfgs = P.gen_configs(work)
    progs = [(t, x, None) for t, x in P.corpus(rng, 200 if tier == "quick" else 585)]
    progs += P.generated(work, stats, rng, *((15, 10, 10) if tier == "quick" else (80, 50, 50)))
    stress = stress_programs(rng, tier)
    progs += stress
    mode = "round" if tier == "quick" else "stmt"
    jobs = [{"cfg": cfgs[c] if c else None, "files": {"t.rb": x}, "args": ["t.rb"], "trace": True, "digest": mode, "tag": t}
            for t, x, c in progs]
    wr = C.Runner(work, "worker")
    try:
        results = wr.run_many(jobs)
    finally:
        wr.close()
    # a stress program that crashes (known crash sites of single methods) is re-run one method at a time
    redo = []
    for job, res in zip(jobs, results):
        if (res.get("died") or res.crashed or res.hung) and job["tag"] in _GROUPS:
            for tag, g in _GROUPS[job["tag"]]:
                redo.append({"cfg": None, "files": {"t.rb": "foo = 1.5\n" + "\n".join(g) + "\n"}, "args": ["t.rb"], "trace": True,
                             "digest": mode, "tag": tag})
    if redo:
        wr = C.Runner(work, "worker")
        try:
            jobs = jobs + redo
            results = results + wr.run_many(redo)
        finally:
            wr.close()
        v.count("stress_groups_rerun_alone", len(redo))
    traces = []
    known_ev = 0
    for i, (job, res) in enumerate(zip(jobs, results)):
        if res.get("died") or res.crashed or res.hung:
            v.count("program_fails_skipped")
            continue
        evs = []
        for e in res.get("events") or []:
            if e["ev"] == "mutation":
                key = classify(e)
                if v.findings.match("C12", key) is not None:
                    # a listed known finding: reported below, not handed to TLC as an unknown mutation
                    v.fail(key, "%s: configured entry %s changed during analysis (%s)" % (job["tag"], e["entry"], e.get("where")),
                           C.job_files_for_replay(job), detail=e)
                    known_ev += 1
                    continue
            evs.append(e)
        res2 = C.Result(res)
        res2["events"] = evs
        traces.append((i, R.trace_of("#%d|%s" % (i, job["tag"]), res2, 0, set(), keep=("round", "step", "err", "mutation"))))
    bad = R.validate_traces(work, [t for _, t in traces], stats, 10000)
    seen = set()
    for pos, rid, reason in bad:
        if reason != "a configured builtin entry was modified during analysis" or rid in seen:
            continue
        seen.add(rid)
        i = int(rid[1:].split("|")[0])
        muts = [e for e in results[i].get("events") or [] if e["ev"] == "mutation" and v.findings.match("C12", classify(e)) is None]
        e = muts[0] if muts else {}
        v.fail(classify(e), "%s: TraceRun rejects the run: configured entry %s changed during analysis (before %s / after %s)" % (
            jobs[i]["tag"], e.get("entry"), (e.get("before") or "")[:160], (e.get("after") or "")[:160]),
            C.job_files_for_replay(jobs[i]), detail=e)

    # black-box probe cross-check
    pl = probes(work, stats)
    base_job = {"files": {"t.rb": "\n".join(pl) + "\n"}, "args": ["t.rb"]}
    bb = C.Runner(work, "blackbox")
    base = bb.run_one(base_job)
    if base.get("exit") != 0 or base.get("timeout"):
        raise C.HarnessError("probe program fails on its own: %r" % (base.get("out") or "")[:200])
    base_lines = [(row, m) for k, f, row, m in C.parse_lines(base["out"]) if k == "d"]
    hosts = [(t, x) for t, x, c in progs if c is None and not REOPENS.search(x)]
    hosts = hosts[:60 if tier == "quick" else 400]
    pjobs = []
    for t, x in hosts:
        body = x if x.endswith("\n") else x + "\n"
        pjobs.append({"files": {"t.rb": body + "\n".join(pl) + "\n"}, "args": ["t.rb"], "shift": body.count("\n"), "tag": t})
    pres = bb.run_many(pjobs)
    compared = 0
    for job, res in zip(pjobs, pres):
        if res.get("timeout") or res.get("exit") != 0 or res.get("panic"):
            v.count("host_program_fails_skipped")
            continue
        got = [(row - job["shift"], m) for k, f, row, m in C.parse_lines(res["out"]) if k == "d" and row > job["shift"]]
        compared += 1
        if got == base_lines:
            continue
        diff = [x for x in got if x not in base_lines][:2] + [("missing",) + x for x in base_lines if x not in got][:2]
        # a host that ends inside an open construct, or defines a method of the same name, is not a valid host
        names = {pl[r - 1].split(".", 1)[1].split("(")[0] for r, m in [d for d in diff if d[0] != "missing"] if 0 < r <= len(pl) and "." in pl[r - 1]}
        if any(re.search(r"def\s+(self\.)?%s\b" % re.escape(n), job["files"]["t.rb"]) for n in names):
            v.count("host_defines_probed_name_skipped")
            continue
        alone = C.confirm_alone(work, {"files": job["files"], "args": job["args"]}, runs=1)[0]
        got2 = [(row - job["shift"], m) for k, f, row, m in C.parse_lines(alone.get("out") or "") if k == "d" and row > job["shift"]]
        if got2 == base_lines:
            v.count("not_reproduced_alone")
            continue
        r0 = diff[0][0] if diff[0][0] != "missing" else diff[0][1]
        probe_line = pl[r0 - 1] if isinstance(r0, int) and 0 < r0 <= len(pl) else "?"
        v.fail("probe-changed:%s" % probe_line, "after program %s the probe `%s` prints %r (alone: %r)" % (
            job["tag"], probe_line, [d for d in diff if d[0] != "missing"][:1], [d for d in diff if d[0] == "missing"][:1]),
            C.job_files_for_replay({"files": job["files"], "args": job["args"]}))
    v.sample({"probe_program_lines": pl[:6], "probes": len(pl) // 2})
    v.sample({"digest_mode": mode, "programs": len(jobs)})
    cov = {"states": stats["states"], "transitions": stats["transitions"], "traces_validated_against_impl": stats["traces"],
           "trace_events": stats["trace_events"], "programs_digested": len(jobs), "digest_mode": mode, "stress_programs": len(stress),
           "known_mutation_events": known_ev, "probe_hosts_compared": compared, "probes": len(pl) // 2,
           "rule": "corpus + TLC-generated programs + stress programs (every understood method of the shipped configuration through "
                   "union receivers, &., assignment to the call, growth of the result, wrong arguments) analysed with a digest of every configured entry after each "
                   "round (quick) / statement (thorough); traces validated by TLC against Run.tla (no action explains a "
                   "mutation event); probes of every understood configured method appended to corpus programs"}
    return v.finish("model_checking", cov, assumptions=[
        "digest covers type structure, arguments, defaults, flags, overloads and block parameters of every TFrame entry "
        "present after the configuration was loaded, and the builtin type templates; beforeEvaluateCode is not covered",
        "hosts that reopen builtin classes or define a method named like a probed one are excluded"])


def replay(work, path):
    return 0
