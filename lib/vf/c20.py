"""C20 - declarations for classes a program never mentions do not affect it.

Model: Classes.tla / Config.tla identify a class by frame + name; MCClasses!Locality (an
unreachable class, even of the same short name, changes no judgement) is model-checked.
Replay: corpus programs and TLC-generated class programs are analysed with the shipped
configuration and with extra configuration files added that declare (a) classes with names no
program mentions, in the Builtin frame and in another frame, (b) classes in another frame that
reuse the short names of the program's own classes, with other methods; diagnostics and -i
output must be identical.
"""
import json
import os

from . import common as C
from . import classes as K
from . import pool as P


def extra_configs(work):
    def cls(frame, name, meths):
        return {"frame": frame, "class": name,
                "instance_methods": [{"name": m, "arguments": [{"type": ["Int"]}], "return_type": {"type": [t]}} for m, t in meths],
                "class_methods": [{"name": "new", "arguments": [], "return_type": {"type": [name]}},
                                  {"name": "foo", "arguments": [], "return_type": {"type": ["Float"]}}]}
    sets = {
        "unmentioned-builtin-frame": [cls("Builtin", "VfZeta", [("zeta", "Int")]), cls("Builtin", "VfOmega", [("foo", "String")])],
        "unmentioned-other-frame": [cls("Vendor", "VfZeta", [("zeta", "Int")]), cls("Vendor::Deep", "VfOmega", [("foo", "String")])],
        "same-short-name-other-frame": [cls("Vendor", "Alpha", [("foo", "Float"), ("bar", "Float")]), cls("Vendor", "Beta", [("baz", "Float")]),
                                         cls("Vendor", "Mixer", [("mix", "String")])],
        # the same short names in the Builtin frame itself: only for programs whose own classes all live in namespaces
        # (a top-level class Alpha would BE the configured Alpha)
        "same-short-name-builtin-frame": [cls("Builtin", "Alpha", [("foo", "Float"), ("bar", "Float"), ("baz", "Float"), ("mix", "Float")]),
                                           cls("Builtin", "Beta", [("foo", "Float"), ("bar", "Float"), ("baz", "Float"), ("mix", "Float")]),
                                           cls("Builtin", "Gamma", [("foo", "Float"), ("bar", "Float"), ("baz", "Float"), ("mix", "Float")])],
    }
    out = {}
    for name, files in sets.items():
        d = work.sub("c20-" + name)
        for f in os.listdir(C.SHIPPED_CFG):
            os.symlink(os.path.join(C.SHIPPED_CFG, f), os.path.join(d, f))
        for i, c in enumerate(files):
            json.dump(c, open(os.path.join(d, "zz_extra_%d.json" % i), "w"))
        out[name] = d
    return out


def run(tier, work):
    v = C.Verdict("C20", tier, work)
    rng = C.tier_rng(tier, 20)
    stats = dict(states=0, transitions=0)
    graphs = K.emit(work, stats)
    graphs = rng.sample(graphs, 150 if tier == "quick" else 2500)
    progs = [(t, x) for t, x in P.corpus(rng, 60 if tier == "quick" else 585)]
    for gr in graphs:
        dl, _ = K.render(gr, K.PLAIN)
        ql, _ = K.query_lines(gr, K.PLAIN)
        progs.append(("classes", "\n".join(dl + ql) + "\n"))
    # the same graphs with every class / module placed in its own namespace (TLC: MCPlacements), edges crossing namespaces
    from . import c16
    sub = graphs[:len(graphs) // 2]
    chosen = c16.choose_places(work, stats, sub, rng)
    allns = [p_ for p_ in K.placements(work, stats) if all(p_.values())]
    for i in range(0, len(chosen), 2):           # every other program: no entity at the top level
        cross = [p_ for p_ in allns if K.crosses(sub[i], p_)]
        chosen[i] = rng.choice(cross or allns)
    for gr, pl in zip(sub, chosen):
        dl, _ = K.render(gr, K.PLAIN, place=pl)
        ql, _ = K.query_lines(gr, K.PLAIN, place=pl)
        progs.append(("classes-placed" + ("-all-namespaced" if all(pl.get(x, "") for x in gr["shape"]) else ""), "\n".join(dl + ql) + "\n"))
    cfgs = extra_configs(work)
    jobs, meta = [], []
    for tag, text in progs:
        if any(n in text for n in ("VfZeta", "VfOmega", "Vendor")):
            continue
        base_i = len(jobs)
        jobs.append({"files": {"t.rb": text}, "args": ["t.rb", "-i"]})
        meta.append(None)
        for cname, cdir in cfgs.items():
            if cname == "same-short-name-builtin-frame" and not tag.endswith("-all-namespaced"):
                continue
            jobs.append({"cfg": cdir, "files": {"t.rb": text}, "args": ["t.rb", "-i"]})
            meta.append((base_i, tag, cname))
    wr = C.Runner(work, "worker")
    try:
        results = wr.run_many(jobs)
    finally:
        wr.close()
    compared = 0
    for m, job, res in zip(meta, jobs, results):
        if m is None:
            continue
        base_i, tag, cname = m
        b = results[base_i]
        if b.hung or b.crashed or b.get("exit") != 0:
            v.count("base_fails_skipped")
            continue
        compared += 1
        if (res.get("out") or "") == b.get("out") and not (res.hung or res.crashed):
            continue
        mentions = cname in ("same-short-name-other-frame", "same-short-name-builtin-frame") and tag.startswith("classes")
        key = ("Dev_FlatBuiltinClassList" if mentions else "%s:%s" % (cname, tag))
        if mentions:
            # the known deviation is counted per differing output LINE, not per program: a change that makes more rows of
            # an already differing program go wrong still shows as growth
            la0, lb0 = (b.get("out") or "").split("\n"), (res.get("out") or "").split("\n")
            extra_lines = max(0, len([x for x in lb0 if x not in la0]) + len([x for x in la0 if x not in lb0]) - 1)
            for _ in range(extra_lines):
                if v.seen(key):
                    v.again(key)
        if v.seen(key):
            v.again(key)
            continue
        a2 = C.confirm_alone(work, {"files": job["files"], "args": job["args"]}, runs=1)[0]
        b2 = C.confirm_alone(work, job, runs=1)[0]
        if a2.get("out") == b2.get("out"):
            v.count("not_reproduced_blackbox")
            continue
        la, lb = (a2.get("out") or "").split("\n"), (b2.get("out") or "").split("\n")
        diff = [x for x in lb if x not in la][:3] + ["missing: " + x for x in la if x not in lb][:3]
        v.fail(key, "%s: with the extra configuration `%s` the output changes: %r" % (tag, cname, diff), C.job_files_for_replay(job))
    v.sample({"extra_configurations": list(cfgs)})
    cov = {"states": stats["states"], "transitions": stats["transitions"], "traces_validated_against_impl": compared,
           "programs": len(progs), "extra_configurations": len(cfgs),
           "rule": "corpus + TLC-generated class programs x {no extra files, unmentioned classes in Builtin, unmentioned classes in "
                   "another frame, same short names as the program's classes in another frame}; class programs also with every class / "
                   "module placed in a namespace of its own (edges crossing namespaces); diagnostics and -i output compared"}
    return v.finish("model_checking", cov, assumptions=["a program mentions a class when the class's name occurs in its text"])


def replay(work, path):
    return 0
