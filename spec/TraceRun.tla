------------------------------ MODULE TraceRun ------------------------------
(***************************************************************************)
(* Trace validation: the events recorded from real `ti` runs (verif hooks, *)
(* NDJSON, many runs concatenated) must be a behaviour of Run.             *)
(*                                                                         *)
(* Each event is matched against the Run action it stands for.  The trace  *)
(* Next is TOTAL: an event that is not a step of Run is recorded in `bad`  *)
(* with its position and the reason, the state is resynchronised from the  *)
(* event, and validation goes on - so one rejection does not leave the     *)
(* rest of the trace unexamined.  Accepted iff bad = <<>> at the end.      *)
(*                                                                         *)
(* Event kinds: start (run begins: number of preload files, flags),        *)
(* round, step, err, exit (exit code, panic, parsed output lines);         *)
(* bind/call/ret are steps the Run module does not model (stuttering);     *)
(* mutation (a configured builtin entry changed) is never a step of Run.   *)
(***************************************************************************)
EXTENDS Run, Json

CONSTANT TraceFile

Trace == ndJsonDeserialize(TraceFile)

VARIABLES pp,     \* identity of the parser object of the pass in progress
          l,      \* position in Trace
          bad,    \* <<position, run id, reason>> for every rejected event
          runid,  \* id of the run being validated
          modes,  \* output record kinds this run's flags allow besides diagnostics
          nruns

tvars == <<vars, pp, l, bad, runid, modes, nruns>>

TInit == /\ np = 0 /\ ri = 0 /\ fi = 0 /\ row = 1 /\ nsteps = 0 /\ atEOF = FALSE /\ eofReads = 0
         /\ errs = <<>> /\ printed = <<>> /\ status = "exit0"
         /\ pp = "" /\ l = 1 /\ bad = <<>> /\ runid = "" /\ modes = {} /\ nruns = 0

Reject(reason) == bad' = Append(bad, <<l, runid, reason>>)

E == Trace[l]

\* --- start: a new run (only legal when the previous one has ended) ------
TStart ==
    /\ E.ev = "start"
    /\ np' = E.np /\ ri' = 0 /\ fi' = 0 /\ row' = 1 /\ nsteps' = 0 /\ atEOF' = FALSE /\ eofReads' = 0
    /\ errs' = <<>> /\ printed' = <<>> /\ status' = "running"
    /\ runid' = E.id /\ modes' = {E.modes[i] : i \in DOMAIN E.modes} /\ nruns' = nruns + 1 /\ pp' = ""
    /\ IF status = "exit0" THEN UNCHANGED bad ELSE Reject("previous run never reached exit 0")

\* --- round --------------------------------------------------------------
RoundIndex(r) == CHOOSE i \in 1..Len(Rounds) : Rounds[i] = r
TRound ==
    /\ E.ev = "round"
    /\ LET ok == /\ status = "running" /\ ri < Len(Rounds) /\ Rounds[ri + 1] = E.round
                 /\ (ri = 0 \/ (fi = Len(Files) /\ atEOF))
       IN  /\ ri' = RoundIndex(E.round) /\ fi' = 0 /\ atEOF' = FALSE
           /\ IF ok THEN UNCHANGED bad ELSE Reject("round out of order or previous round incomplete")
    /\ UNCHANGED <<np, row, nsteps, eofReads, errs, printed, status, runid, modes, nruns, pp>>

\* --- step: StartFile (when the pass changes) composed with Step ---------
FileIndex(f) == IF \E i \in 1..Len(Files) : Files[i] = f
                THEN CHOOSE i \in 1..Len(Files) : Files[i] = f ELSE 0
TStep ==
    /\ E.ev = "step"
    /\ LET fresh == fi = 0 \/ atEOF
           fi2   == IF fresh THEN fi + 1 ELSE fi
           row0  == IF fresh THEN 1 ELSE row
           reason ==
             IF status # "running" \/ ri = 0 THEN "step outside a round"
             ELSE IF Rounds[ri] # E.round THEN "step of another round"
             ELSE IF fi2 > Len(Files) THEN "more file passes than preload + target"
             ELSE IF Files[fi2] # E.file THEN "file pass out of order (preload files first, in order, then the target)"
             ELSE IF (fi2 <= Len(Preload)) # E.load THEN "isLoad flag does not match the file"
             ELSE IF E.row < row0 THEN "row went backwards"
             ELSE IF E.eofReads < eofReads THEN "eof read counter went backwards"
             ELSE IF E.eofReads > EOFBudget THEN "reads past end of input exceed the budget"
             ELSE ""
       IN  /\ fi' = IF reason = "" THEN fi2 ELSE FileIndex(E.file)
           /\ row' = E.row /\ atEOF' = E.eof /\ eofReads' = E.eofReads
           /\ nsteps' = IF fresh THEN 1 ELSE nsteps + 1
           /\ pp' = E.pp
           /\ IF reason = "" THEN UNCHANGED bad ELSE Reject(reason)
    /\ UNCHANGED <<np, ri, errs, printed, status, runid, modes, nruns>>

\* --- err: Parser.Fatal ---------------------------------------------------
\* Three cases: (a) on the pass's own parser: RecordError; (b) on a by-value copy of the parser
\* (IfUnless evaluates conditions ahead on a copy): the diagnostic is lost with the copy -
\* Run!LookaheadError; (c) the very first Read of a new pass fails before the pass's first
\* step event: StartFile composed with RecordError.
TErr ==
    /\ E.ev = "err"
    /\ LET fresh == (fi = 0 \/ atEOF) /\ fi < Len(Files) /\ Files[fi + 1] = E.file
           fi2   == IF fresh THEN fi + 1 ELSE fi
           reason == IF status # "running" \/ ri = 0 \/ fi2 = 0 THEN "diagnostic outside a file pass"
                     ELSE IF Rounds[ri] # E.round THEN "diagnostic of another round"
                     ELSE IF Files[fi2] # E.file THEN "diagnostic names a file other than the one being analysed"
                     ELSE ""
           own  == fresh \/ E.pp = pp
           keep == reason = "" /\ own /\ E.round = "check" /\ fi2 = Len(Files)
       IN  /\ errs' = IF keep THEN Append(errs, [file |-> E.file, row |-> E.row, msg |-> E.msg]) ELSE errs
           /\ fi' = fi2
           /\ atEOF' = (IF fresh THEN FALSE ELSE atEOF)
           /\ row' = (IF fresh THEN 1 ELSE row)
           /\ nsteps' = (IF fresh THEN 0 ELSE nsteps)
           /\ pp' = (IF fresh THEN E.pp ELSE pp)
           /\ IF reason = "" THEN UNCHANGED bad ELSE Reject(reason)
    /\ UNCHANGED <<np, ri, eofReads, printed, status, runid, modes, nruns>>

\* --- exit: Finish --------------------------------------------------------
Diags(lines) == SelectSeq(lines, LAMBDA x : x.kind = "d")
LineOK(x) == /\ x.kind \in ({"d"} \cup modes)
             /\ (x.kind \in {"d", "h"} => x.file = Target)
SameDiag(a, b) == a.file = b.file /\ a.row = b.row /\ a.msg = b.msg
HintsFirst(lines) == \A i, j \in 1..Len(lines) : (lines[i].kind = "d" /\ lines[j].kind = "h") => j < i
TExit ==
    /\ E.ev = "exit"
    /\ LET ds == Diags(E.lines)
           reason ==
             IF E.panic # "" THEN "run ended in a panic"
             ELSE IF E.hang THEN "run never finished (budget / watchdog)"
             ELSE IF E.code # 0 THEN "exit status is not 0"
             ELSE IF status # "running" THEN "exit without a run"
             ELSE IF ~(ri = Len(Rounds) /\ fi = Len(Files) /\ atEOF) THEN "exit before the check round of the target was over"
             ELSE IF \E i \in 1..Len(E.lines) : ~LineOK(E.lines[i]) THEN "output line outside the grammar of this mode or naming another file"
             ELSE IF "free" \notin modes /\ Len(ds) # Len(errs) THEN "printed diagnostics are not the recorded ones (count)"
             ELSE IF "free" \notin modes /\ \E i \in 1..Len(ds) : ~SameDiag(ds[i], errs[i]) THEN "printed diagnostics are not the recorded ones"
             ELSE IF ~HintsFirst(E.lines) THEN "a hint is printed after a diagnostic"
             ELSE ""
       IN  /\ printed' = E.lines /\ status' = "exit0"
           /\ IF reason = "" THEN UNCHANGED bad ELSE Reject(reason)
    /\ UNCHANGED <<np, ri, fi, row, nsteps, atEOF, eofReads, errs, runid, modes, nruns, pp>>

\* --- events Run does not model -------------------------------------------
TOther ==
    /\ E.ev \in {"bind", "call", "ret"}
    /\ UNCHANGED <<vars, bad, runid, modes, nruns, pp>>

TMutation ==
    /\ E.ev = "mutation"
    /\ Reject("a configured builtin entry was modified during analysis")
    /\ UNCHANGED <<vars, runid, modes, nruns, pp>>

TNext == /\ l <= Len(Trace)
         /\ l' = l + 1
         /\ (TStart \/ TRound \/ TStep \/ TErr \/ TExit \/ TOther \/ TMutation)

TraceSpec == TInit /\ [][TNext]_tvars

\* every event is consumed; what was rejected is printed for the harness
TraceDone == l = Len(Trace) + 1
Report == TraceDone => PrintT(ToJson([bad |-> bad, runs |-> nruns, events |-> Len(Trace), open |-> status]))
=============================================================================
