SPECIFICATION Spec
CONSTANTS
  Leaky = @@LEAKY@@
  Emit = @@EMIT@@
INVARIANTS EmitInv @@INVS@@
