------------------------------- MODULE Config -------------------------------
(***************************************************************************)
(* How ruby-ti builds its table of configured methods from the JSON files  *)
(* of .ti-config (builtin/json_loader.go, define_builtin_method.go), and   *)
(* the property C19: the result depends only on the SET of declarations,   *)
(* not on file names (= load order, filepath.Glob sorts by name) nor on    *)
(* how one class's declarations are split over files.                      *)
(*                                                                         *)
(* A file declares one class: its parents (extends) and a sequence of      *)
(* methods [name, sig].  Loading a file, in order:                         *)
(*   for each method: existing := lookup(class, name)                      *)
(*        if existing: the new signature becomes an OVERLOAD of existing   *)
(*        else       : it becomes the primary declaration of class#name    *)
(*   then the class gets its edge to Object, then its extends edges.       *)
(* As shipped, lookup = GetMethodT, which also walks the parents known so  *)
(* far: a method that a parent loaded EARLIER already declares is filed as *)
(* an overload OF THE PARENT'S declaration (WalkParents = TRUE).  Intended:*)
(* lookup looks at the class's own declarations only (WalkParents = FALSE).*)
(***************************************************************************)
EXTENDS Integers, Sequences, FiniteSets, TLC

CONSTANTS Files,        \* set of files: [id, class, extends (sequence of class names), methods (sequence of [name, sig])]
          WalkParents   \* TRUE: as shipped; FALSE: intended

VARIABLES order,    \* the load order being explored: a sequence of file ids
          loaded,   \* how many files of `order` are loaded
          own,      \* own[c][m] = sequence of signatures declared for class c under name m (primary first)
          edges     \* edges[c] = sequence of parents of c, in the order they were added

vars == <<order, loaded, own, edges>>

Classes == {f.class : f \in Files} \cup UNION {{f.extends[i] : i \in DOMAIN f.extends} : f \in Files}
Names   == UNION {{f.methods[i].name : i \in DOMAIN f.methods} : f \in Files}
FileById(id) == CHOOSE f \in Files : f.id = id

Perms(S) == {s \in [1..Cardinality(S) -> S] : \A i, j \in 1..Cardinality(S) : i # j => s[i] # s[j]}

\* first class on the parent walk (depth first, in edge order) that declares m; "" if none
RECURSIVE FindIn(_, _, _, _, _)
FindIn(ow, ed, cs, m, fuel) ==
    IF cs = <<>> \/ fuel = 0 THEN ""
    ELSE LET c == Head(cs) IN
         IF ow[c][m] # <<>> THEN c
         ELSE LET r == FindIn(ow, ed, ed[c], m, fuel - 1) IN
              IF r # "" THEN r ELSE FindIn(ow, ed, Tail(cs), m, fuel - 1)

Owner(ow, ed, c, m) ==   \* the class whose declaration list a new signature of c#m is appended to
    IF ow[c][m] # <<>> THEN c
    ELSE IF WalkParents THEN FindIn(ow, ed, ed[c], m, 8) ELSE ""

RECURSIVE AddMethods(_, _, _, _)
AddMethods(ow, ed, c, ms) ==
    IF ms = <<>> THEN ow
    ELSE LET m == Head(ms)
             o == Owner(ow, ed, c, m.name)
             tgt == IF o = "" THEN c ELSE o
             ow2 == [ow EXCEPT ![tgt][m.name] = Append(@, m.sig)]
         IN  AddMethods(ow2, ed, c, Tail(ms))

RECURSIVE AddEdges(_, _)
AddEdges(es, ps) ==
    IF ps = <<>> THEN es
    ELSE IF \E i \in DOMAIN es : es[i] = Head(ps) THEN AddEdges(es, Tail(ps))
    ELSE AddEdges(Append(es, Head(ps)), Tail(ps))

Load ==
    /\ loaded < Len(order)
    /\ LET f == FileById(order[loaded + 1])
           ow2 == AddMethods(own, edges, f.class, f.methods)
       IN  /\ own' = ow2
           /\ edges' = [edges EXCEPT ![f.class] = AddEdges(@, f.extends)]
    /\ loaded' = loaded + 1
    /\ UNCHANGED order

Init == /\ order \in Perms({f.id : f \in Files})
        /\ loaded = 0
        /\ own = [c \in Classes |-> [m \in Names |-> <<>>]]
        /\ edges = [c \in Classes |-> <<>>]

Spec == Init /\ [][Load]_vars

Done == loaded = Len(order)

\* what a call of c#m is checked against: the declarations of the first class on the lookup path
Resolve(ow, ed, c, m) ==
    LET o == IF ow[c][m] # <<>> THEN c ELSE FindIn(ow, ed, ed[c], m, 8)
    IN  IF o = "" THEN <<>> ELSE ow[o][m]

\* canonical result: every class sees exactly its own declarations (in any order) or, if it has
\* none, those of the nearest ancestor - independent of the load order
OwnDecls(c, m) == UNION {{f.methods[i].sig : i \in {j \in DOMAIN f.methods : f.methods[j].name = m}} : f \in {g \in Files : g.class = c}}
RangeOf(s) == {s[i] : i \in DOMAIN s}

\* C19 on the model: once everything is loaded, the SET of signatures filed under each class is
\* exactly the set declared for it, whatever the order
OrderIndependent ==
    Done => \A c \in Classes, m \in Names : RangeOf(own[c][m]) = OwnDecls(c, m)
=============================================================================
