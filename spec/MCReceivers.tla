----------------------------- MODULE MCReceivers -----------------------------
EXTENDS Receivers, Json
EmitInv == PrintT(ToJson([recv |-> recv, nav |-> nav, meth |-> meth, mf |-> MustFail, mp |-> MustPass]))
=============================================================================
