SPECIFICATION SWSpec
CONSTANTS
  KeyOrder <- SWKeyOrder
  CaseFile = "cases.ndjson"
CHECK_DEADLOCK FALSE
