SPECIFICATION MCSpec
CONSTANTS
  KeyOrder <- MCKeyOrder
  NKeys = @@NKEYS@@
  AnyFirst = @@ANYFIRST@@
  Emit = @@EMIT@@
INVARIANTS RefOrderFree AsIsOrderFree EmitInv
