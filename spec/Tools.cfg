SPECIFICATION MCSpec
CONSTANTS
  Kw <- MCKw
  KwRank <- MCKwRank
  SortKeywords = @@SORTKW@@
  WholeSpec = @@WHOLE@@
  Emit = @@EMIT@@
  Part = @@PART@@
INVARIANTS EmitInv @@INVS@@
