--------------------------- MODULE MCMethodBodies ---------------------------
EXTENDS MethodBodies, Json
CONSTANTS Emit, MaxSites

Classes3 == {"Integer", "String", "Float"}
Sites == [c : Classes3, second : {"", "Integer", "String"}, where : {"before", "after", "inner"}]

VARIABLE prog
MCInit == prog \in {p \in [shape : {"pos", "opt", "kw"}, dflt : {"", "Integer", "String"},
                          body : {"param", "second", "return", "upcase", "to_s"},
                          sites : UNION {[1..n -> Sites] : n \in 1..MaxSites}] : WellFormed(p)}
MCNext == UNCHANGED prog
MCSpec == MCInit /\ [][MCNext]_prog

\* sanity of the reference
Exclusive == ~(OpAllOk(prog) /\ OpAllFail(prog) /\ prog.body \in {"upcase", "to_s"})
\* a judged result always contains the classes a `param` body would pass through
Covers == (prog.body = "return") => ArgT(prog) \subseteq RetT(prog)
\* the defaulted parameter's type always contains the default's class
DefaultKept == prog.shape # "pos" => prog.dflt \in SecondT(prog)

Out == [shape |-> prog.shape, dflt |-> prog.dflt, body |-> prog.body, sites |-> prog.sites,
        argT |-> ArgT(prog), secondT |-> SecondT(prog), retT |-> RetT(prog),
        allOk |-> OpAllOk(prog), allFail |-> OpAllFail(prog)]
EmitInv == Emit => PrintT(ToJson(Out))
=============================================================================
