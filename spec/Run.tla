-------------------------------- MODULE Run --------------------------------
(***************************************************************************)
(* Life cycle of one `ti <target> [flags]` run, as main.go organises it:   *)
(*                                                                         *)
(*   for round in <<define, collect, inference, check>>:                   *)
(*       for f in preload files:  evaluationLoop(f, round, isLoad = TRUE)  *)
(*       evaluationLoop(target, round, isLoad = FALSE)                     *)
(*   evaluationLoop: repeat { read a token; evaluate a statement } until   *)
(*       end of input; a diagnostic is RECORDED only in round check;       *)
(*       after (check, target): print hints, then diagnostics; exit 0.     *)
(*                                                                         *)
(* There is no Panic and no Timeout action: a run that ends that way, that *)
(* prints a line outside the grammar, or keeps reading after end of input  *)
(* is not a behaviour of this specification (C01, C02, C04); diagnostics   *)
(* of preloaded files never reach the output (C18).                        *)
(***************************************************************************)
EXTENDS Integers, Sequences, FiniteSets, TLC

CONSTANTS PreloadNames, \* sequence of the names preload files can have, in preload order
          Target,     \* target file name
          MaxSteps,   \* bound on statements per file pass (model checking only)
          MaxErrs,    \* bound on diagnostics (model checking only)
          EOFBudget   \* reads past end of input a terminating run may make

Rounds == <<"define", "collect", "inference", "check">>

VARIABLES np,      \* how many preload files this run has (.ti-loader.json), fixed per run
          ri,      \* index into Rounds; Len(Rounds)+1 when all rounds are over
          fi,      \* index into Files of the pass in progress (0: round announced, no pass yet)
          row,     \* parser row of the pass in progress
          nsteps,  \* statements of the pass in progress
          atEOF,   \* the pass in progress has seen end of input
          eofReads,\* reads past the end of input so far in this run
          errs,    \* diagnostics recorded (round check, target file only)
          printed, \* what was printed
          status   \* "running" | "exit0"

Preload == SubSeq(PreloadNames, 1, np)
Files   == Preload \o <<Target>>

vars == <<np, ri, fi, row, nsteps, atEOF, eofReads, errs, printed, status>>

Init == /\ np \in 0..Len(PreloadNames)
        /\ ri = 0 /\ fi = 0 /\ row = 1 /\ nsteps = 0 /\ atEOF = FALSE /\ eofReads = 0
        /\ errs = <<>> /\ printed = <<>> /\ status = "running"

CurRound == Rounds[ri]
IsLoad   == fi <= Len(Preload)
CurFile  == Files[fi]

\* main(): next round (all passes of the previous one are over)
StartRound ==
    /\ status = "running"
    /\ ri < Len(Rounds)
    /\ (ri = 0 \/ (fi = Len(Files) /\ atEOF))
    /\ ri' = ri + 1 /\ fi' = 0 /\ atEOF' = FALSE
    /\ UNCHANGED <<np, row, nsteps, eofReads, errs, printed, status>>

\* preload()/main(): open the next file of the round with a fresh parser
StartFile ==
    /\ status = "running" /\ ri \in 1..Len(Rounds)
    /\ fi < Len(Files) /\ (fi = 0 \/ atEOF)
    /\ fi' = fi + 1 /\ row' = 1 /\ nsteps' = 0 /\ atEOF' = FALSE
    /\ UNCHANGED <<np, ri, eofReads, errs, printed, status>>

\* one iteration of evaluationLoop: the parser row never decreases, end of input ends the pass
Step(newRow, eof, newEofReads) ==
    /\ status = "running" /\ fi \in 1..Len(Files) /\ ~atEOF
    /\ newRow >= row /\ newEofReads >= eofReads /\ newEofReads <= EOFBudget
    /\ row' = newRow /\ atEOF' = eof /\ eofReads' = newEofReads /\ nsteps' = nsteps + 1
    /\ UNCHANGED <<np, ri, fi, errs, printed, status>>

\* Parser.Fatal: kept only in round check and only for the target
RecordError(e) ==
    /\ status = "running" /\ fi \in 1..Len(Files)
    /\ errs' = IF CurRound = "check" /\ ~IsLoad THEN Append(errs, e) ELSE errs
    /\ UNCHANGED <<np, ri, fi, row, nsteps, atEOF, eofReads, printed, status>>

\* IfUnless evaluates its condition ahead on a by-value COPY of the parser; a diagnostic raised
\* there is appended to the copy's list and is lost with it (named, deliberate deviation from
\* "every diagnostic of the check round is printed")
LookaheadError(e) ==
    /\ status = "running" /\ fi \in 1..Len(Files)
    /\ UNCHANGED vars

\* after the (check, target) pass: hints first, then the recorded diagnostics; exit 0
Finish(hints) ==
    /\ status = "running" /\ ri = Len(Rounds) /\ fi = Len(Files) /\ atEOF
    /\ printed' = hints \o errs
    /\ status' = "exit0"
    /\ UNCHANGED <<np, ri, fi, row, nsteps, atEOF, eofReads, errs>>

Next ==
    \/ StartRound \/ StartFile
    \/ \E r \in row..(row+1), e \in BOOLEAN, k \in eofReads..(eofReads+1) : nsteps < MaxSteps /\ Step(r, e \/ nsteps = MaxSteps - 1, k)
    \/ fi >= 1 /\ Len(errs) < MaxErrs /\ RecordError([file |-> CurFile, row |-> row])
    \/ fi >= 1 /\ LookaheadError([file |-> CurFile, row |-> row])
    \/ Finish(<<>>)

Spec == Init /\ [][Next]_vars /\ WF_vars(Next)

TypeOK == /\ np \in 0..Len(PreloadNames) /\ ri \in 0..Len(Rounds) /\ fi \in 0..Len(Files) /\ status \in {"running", "exit0"}
          /\ eofReads \in 0..EOFBudget

\* C01/C04: the only way a run ends is exit 0
OnlyExit0 == status \in {"running", "exit0"}
\* C18: no diagnostic of a preloaded file is ever recorded or printed
NoPreloadDiag == \A i \in 1..Len(errs) : errs[i].file = Target
PrintedNamesTarget == \A i \in 1..Len(printed) : printed[i].file = Target
\* C02: bounded reading past the end of input, and the run finishes
EOFBounded == eofReads <= EOFBudget
Finishes == <>(status = "exit0")
=============================================================================
