SPECIFICATION Spec
CONSTANTS
  Vars <- MCVars
  Scalars <- MCScalars
  ArrLits <- MCArrLits
  HashLits <- MCHashLits
  Methods <- MCMethods
  MaxStmts = @@MAXSTMTS@@
  Dev_OptionalUnifyMutatesReceiver = @@DEV_OU@@
  Emit = @@EMIT@@
  Rich = @@RICH@@
INVARIANTS TypeOK LastAssignment EmitInv
PROPERTIES @@PROPS@@
