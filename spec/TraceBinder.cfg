SPECIFICATION TBSpec
CONSTANTS
  KeyOrder <- TBKeyOrder
  TraceFile = "binds.ndjson"
INVARIANTS Report
CHECK_DEADLOCK FALSE
