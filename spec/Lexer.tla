------------------------------- MODULE Lexer -------------------------------
(***************************************************************************)
(* Rule-by-rule transcription of ruby-ti's tokenizer:                      *)
(*   lexer/reader/reader.go  (Read / Unread / AppendHistory)               *)
(*   lexer/lexer.go          (Advance and its helper loops)                *)
(*   lexer/predicate.go      (isIdentifierChar)                            *)
(*   parser/read.go          (which token kinds the parser can map)        *)
(* over rune CLASSES instead of runes.  One action per dispatch arm of     *)
(* Advance and one per iteration of each helper loop.                      *)
(*                                                                         *)
(* The code is modelled AS IT IS when the Fix* constants are FALSE (the    *)
(* four loops that do not test for end of input spin, NUL ends the stream, *)
(* a backtick has no parser mapping) and as INTENDED when they are TRUE.   *)
(* The property (C03): tokenizing terminates after a number of steps       *)
(* linear in the input, consumes every rune, and only produces token kinds *)
(* the parser maps.                                                        *)
(***************************************************************************)
EXTENDS Integers, Sequences, FiniteSets, TLC, Json

CONSTANTS
    Alphabet,     \* set of rune classes inputs are drawn from
    MaxLen,       \* inputs are all sequences over Alphabet of length 0..MaxLen
    EOFBound,     \* more end-of-input reads than this = spinning
    FixEOFLoops,  \* TRUE: the helper loops stop at end of input (intended)
    FixNul,       \* TRUE: an embedded NUL does not end the stream (intended)
    FixBacktick,  \* TRUE: a backtick opens a string literal (intended); FALSE: unmapped token
    Emit          \* TRUE: print one JSON behaviour per input at its terminal state

VARIABLES
    input,        \* the rune-class sequence being tokenized (never changes)
    pos,          \* reader: index of the next rune, 1..Len(input)+1
    ug,           \* reader: ungetFlg
    ch,           \* reader: last rune handed out ("nul" is rune 0, also returned at end of input)
    hist,         \* reader: history (runes pushed back by lexDigit)
    eofs,         \* reader: number of reads answered past the end of input
    pc,           \* where Advance is: adv, skipsp, dispatch, <loop>, eos
    first, hasCQ, lastColon, start,   \* locals of lexIdentifier / lexString
    out,          \* observation: one record per token (kind + reader cursor)
    steps         \* number of actions taken

vars == <<input, pos, ug, ch, hist, eofs, pc, first, hasCQ, lastColon, start, out, steps>>

AllClasses == {"a","f","x","o","w","d","ud","sp","nl","dq","sq","bs","hash","lt","gt","eq","dot",
               "pct","bang","plus","minus","amp","pipe","punct","lc","colon","bt","star","us","nul"}

\* "eof" is what the reader hands out past the end of the input.  In the Go code it is
\* rune 0, the same value as an embedded NUL ("nul"); the two are told apart only when FixNul.
Chars == AllClasses \cup {"eof"}
Zero(c) == c \in {"nul", "eof"}

ASSUME Alphabet \subseteq AllClasses

(* character predicates ---------------------------------------------------*)
IsSpace(c)   == c \in {"sp", "nl"}                      \* unicode.IsSpace
IsDigit(c)   == c \in {"d", "ud"}                       \* unicode.IsDigit ("ud": non-ASCII digit)
IsHexDigit(c)== c \in {"d", "f"}                        \* 0-9 a-f A-F  ('b' is in class "o", handled first)
NonIdent     == {"sp","nl","punct","dot","lc","eq","pipe","amp","nul","eof"}
IsIdent(c)   == c \notin NonIdent                       \* isIdentifierChar
PctLetters   == {"eq","w","x"}                          \* '=', W w i Q q r s l x

(* reader -----------------------------------------------------------------*)
R == [pos |-> pos, ug |-> ug, ch |-> ch, hist |-> hist, eofs |-> eofs]

\* FixNul as implemented in reader.New: an embedded NUL is turned into a space when the
\* input is loaded, so rune 0 only ever means end of input.
Eff(c) == IF FixNul /\ c = "nul" THEN "sp" ELSE c

Rd(r) ==
    IF r.ug THEN [r EXCEPT !.ug = FALSE]
    ELSE IF r.hist # <<>> THEN [r EXCEPT !.ch = Head(r.hist), !.hist = Tail(r.hist)]
    ELSE IF r.pos > Len(input) THEN [r EXCEPT !.ch = "eof", !.eofs = @ + 1]
    ELSE [r EXCEPT !.ch = Eff(input[r.pos]), !.pos = @ + 1]

Un(r)      == [r EXCEPT !.ug = TRUE]
Push(r, c) == [r EXCEPT !.hist = Append(@, c)]

\* "the rune just read is the end of input": rune 0 in the Go code, so an embedded NUL
\* looks the same unless FixNul
AtEnd(r) == IF FixNul THEN r.ch = "eof" ELSE Zero(r.ch)

SetR(r) == /\ pos' = r.pos /\ ug' = r.ug /\ ch' = r.ch /\ hist' = r.hist /\ eofs' = r.eofs

Obs(kind, r) == [k |-> kind, p |-> r.pos, u |-> r.ug, h |-> Len(r.hist)]

EmitTok(kind, r) ==
    /\ SetR(r)
    /\ out' = Append(out, Obs(kind, r))
    /\ pc' = "adv"
    /\ UNCHANGED <<first, hasCQ, lastColon, start>>

Goto(l, r) == /\ SetR(r) /\ pc' = l /\ UNCHANGED <<out, first, hasCQ, lastColon, start>>

Running == pc # "eos" /\ eofs <= EOFBound

(* Advance ------------------------------------------------------------------*)

Adv == \* skipSpace: first read
    /\ pc = "adv" /\ Running
    /\ Goto("skipsp", Rd(R))

SkipSp == \* skipSpace loop, then Unread
    /\ pc = "skipsp" /\ Running
    /\ IF IsSpace(ch) /\ ch # "nl"
         THEN Goto("skipsp", Rd(R))
         ELSE Goto("dispatch", Un(R))

DispLtGt(r1) == r1.ch \in {"lt","gt"} /\ Goto("toSpace", r1)

DispEq(r1) ==
    /\ r1.ch = "eq"
    /\ LET r2 == Rd(r1) IN
       IF r2.ch = "gt" THEN EmitTok("id", r2)                 \* =>
       ELSE IF r2.ch # "eq" THEN EmitTok("id", Un(r2))        \* =
       ELSE LET r3 == Rd(r2) IN
            IF r3.ch # "eq" THEN EmitTok("id", Un(r3))        \* ==
            ELSE EmitTok("id", r3)                            \* ===

DispDot(r1) ==
    /\ r1.ch = "dot"
    /\ LET r2 == Rd(r1) IN
       IF r2.ch = "dot"
         THEN LET r3 == Rd(r2) IN
              IF r3.ch = "dot" THEN EmitTok("id", r3) ELSE EmitTok("id", Un(r3))
         ELSE EmitTok("dot", Un(r2))

DispPct(r1) ==
    /\ r1.ch = "pct"
    /\ LET r2 == Rd(r1) IN
       IF r2.ch \in PctLetters THEN EmitTok("id", r2)
       ELSE Goto("toSpace", Un(r2))

DispOp(r1) == \* ! + - /
    /\ r1.ch \in {"bang","plus","minus"}
    /\ LET c  == r1.ch
           r2 == Rd(r1)
           n  == r2.ch
           rA == IF n = "eq" THEN r2
                 ELSE IF c = "minus" /\ n = "gt" THEN r2
                 ELSE Un(r2)
       IN  IF c \in {"plus","minus"} /\ IsDigit(n) THEN Goto("digit", rA)
           ELSE IF c = "minus" /\ ~IsSpace(n) /\ n \notin {"gt","eq"}
                  THEN Goto("adv", Un(rA))                    \* unary minus: token dropped, Advance again
           ELSE EmitTok("id", rA)

DispAmp(r1) ==
    /\ r1.ch = "amp"
    /\ LET r2 == Rd(r1) IN
       IF r2.ch \in {"dot","amp"} THEN EmitTok("id", r2)
       ELSE Goto("notIdent", Un(r2))

DispPipe(r1) ==
    /\ r1.ch = "pipe"
    /\ LET r2 == Rd(r1)
           rA == IF r2.ch = "pipe" THEN r2 ELSE Un(r2)
           r3 == Rd(rA)
           rB == IF r3.ch = "eq" THEN r3 ELSE Un(r3)
       IN  EmitTok("id", rB)

DispSingle(r1) ==
    \/ r1.ch = "nl"    /\ EmitTok("nl", r1)
    \/ r1.ch = "punct" /\ EmitTok("punct", r1)
    \/ r1.ch = "lc"    /\ EmitTok("lc", r1)
    \/ r1.ch = "bt" /\ ~FixBacktick /\ EmitTok("bt", r1)   \* as shipped: a token the parser cannot map

DispQuote(r1) ==
    /\ r1.ch \in {"dq","sq"} \/ (FixBacktick /\ r1.ch = "bt")   \* fixed: `cmd` is lexed as a string
    /\ SetR(r1) /\ pc' = "string" /\ start' = r1.ch
    /\ UNCHANGED <<out, first, hasCQ, lastColon>>

DispHash(r1) ==
    /\ r1.ch = "hash"
    /\ LET r2 == Rd(r1) IN
       IF r2.ch = "lc" THEN EmitTok("id", r2)                 \* #{
       ELSE Goto("comment", Un(r2))

DispDefault(r1) ==
    /\ r1.ch \notin {"lt","gt","eq","dot","pct","bang","plus","minus","amp","pipe",
                     "nl","punct","lc","bt","dq","sq","hash"}
    /\ IF IsDigit(r1.ch) THEN Goto("digit", Un(r1))
       ELSE IF IsIdent(r1.ch)
              THEN /\ SetR(Un(r1)) /\ pc' = "ident"
                   /\ first' = r1.ch /\ hasCQ' = FALSE /\ lastColon' = FALSE
                   /\ UNCHANGED <<out, start>>
       ELSE Goto("eos", r1)                                   \* Advance returns false

Dispatch ==
    /\ pc = "dispatch" /\ Running
    /\ LET r1 == Rd(R) IN
       \/ DispLtGt(r1) \/ DispEq(r1) \/ DispDot(r1) \/ DispPct(r1) \/ DispOp(r1)
       \/ DispAmp(r1) \/ DispPipe(r1) \/ DispSingle(r1) \/ DispQuote(r1)
       \/ DispHash(r1) \/ DispDefault(r1)

(* helper loops -----------------------------------------------------------*)

ToSpace == \* lexToSpaceTokenEat
    /\ pc = "toSpace" /\ Running
    /\ LET r1 == Rd(R) IN
       IF IsSpace(r1.ch) \/ (FixEOFLoops /\ AtEnd(r1))
         THEN EmitTok("id", Un(r1))
         ELSE Goto("toSpace", r1)

NotIdent == \* lexToNotIdentifierTokenEat
    /\ pc = "notIdent" /\ Running
    /\ LET r1 == Rd(R) IN
       IF ~IsIdent(r1.ch) THEN EmitTok("id", Un(r1)) ELSE Goto("notIdent", r1)

Hex == \* lexHexDigits
    /\ pc = "hex" /\ Running
    /\ LET r1 == Rd(R) IN
       IF r1.ch \in {"x","o"} THEN Goto("hex", r1)
       ELSE IF ~IsHexDigit(r1.ch) THEN EmitTok("num", Un(r1))
       ELSE Goto("hex", r1)

Digit == \* lexDigit
    /\ pc = "digit" /\ Running
    /\ LET r1 == Rd(R) IN
       IF r1.ch \in {"x","o"} THEN Goto("hex", Un(r1))
       ELSE IF r1.ch = "us" THEN Goto("digit", r1)
       ELSE IF r1.ch = "dot"
              THEN LET r2 == Rd(r1) IN
                   IF ~IsDigit(r2.ch)
                     THEN EmitTok("num", Push(Push(r2, "dot"), r2.ch))
                     ELSE Goto("digit", r2)
       ELSE IF ~IsDigit(r1.ch) THEN EmitTok("num", Un(r1))
       ELSE Goto("digit", r1)

Ident == \* lexIdentifier
    /\ pc = "ident" /\ Running
    /\ LET r1 == Rd(R)
           c  == r1.ch
           write == /\ SetR(r1) /\ pc' = "ident"
                    /\ hasCQ' = (hasCQ \/ (lastColon /\ c = "dq"))
                    /\ lastColon' = (c = "colon")
                    /\ UNCHANGED <<out, first, start>>
       IN  IF first = "star" /\ c = "eq" THEN EmitTok("id", r1)          \* *=
           ELSE IF ~IsIdent(c)
                  THEN IF hasCQ /\ c # "nl" /\ c # "dq" /\ ~(FixEOFLoops /\ AtEnd(r1))
                         THEN write                                        \* :"..." eats non-identifier runes
                         ELSE EmitTok("id", Un(r1))
           ELSE write

String == \* lexString
    /\ pc = "string" /\ Running
    /\ LET r1 == Rd(R) IN
       IF r1.ch = start \/ (FixEOFLoops /\ AtEnd(r1)) THEN EmitTok("str", r1)
       ELSE IF r1.ch = "bs" THEN Goto("string", Rd(r1))
       ELSE Goto("string", r1)

Comment == \* skipLineComment, then Advance again
    /\ pc = "comment" /\ Running
    /\ LET r1 == Rd(R) IN
       IF r1.ch = "nl" \/ (FixEOFLoops /\ AtEnd(r1)) THEN Goto("adv", Un(r1))
       ELSE Goto("comment", r1)

\* A behaviour that has read past the end of input more than EOFBound times is "spinning":
\* it is cut there (no action is enabled) and reported as such.
Spinning == pc # "eos" /\ eofs > EOFBound

Step == Adv \/ SkipSp \/ Dispatch \/ ToSpace \/ NotIdent \/ Hex \/ Digit \/ Ident \/ String
        \/ Comment

Next == Step /\ steps' = steps + 1 /\ UNCHANGED input

Inputs == UNION {[1..n -> Alphabet] : n \in 0..MaxLen}

Init ==
    /\ input \in Inputs
    /\ pos = 1 /\ ug = FALSE /\ ch = "eof" /\ hist = <<>> /\ eofs = 0
    /\ pc = "adv" /\ first = "a" /\ hasCQ = FALSE /\ lastColon = FALSE /\ start = "dq"
    /\ out = <<>> /\ steps = 0

Spec == Init /\ [][Next]_vars /\ WF_vars(Next)

(* properties -------------------------------------------------------------*)

TypeOK ==
    /\ pos \in 1..Len(input)+1 /\ ug \in BOOLEAN /\ ch \in Chars
    /\ eofs \in 0..EOFBound+1 /\ Len(hist) <= 2 + Len(input)

\* C03 clause 1, safety form: the number of steps (hence of tokens) is linear in the input
StepsLinear   == steps <= 4 * Len(input) + 12
TokensBounded == Len(out) <= Len(input) + 1
NoSpin        == ~Spinning
\* C03 clause 1, liveness form (checked with fairness in the small configs)
Terminates    == <>(pc = "eos" \/ Spinning)

\* C03 clause 2: every rune is consumed before end-of-stream is reported
ConsumesAll == pc = "eos" => (pos = Len(input) + 1 /\ hist = <<>>)

\* C03 clause 3: every token kind has a parser mapping ("bt" has none unless fixed)
Mapped(k) == k # "bt" \/ FixBacktick
KindsMapped == \A i \in 1..Len(out) : Mapped(out[i].k)

\* the reader cursor never moves backwards and never passes the end
CursorMonotone == [][pos' >= pos /\ eofs' >= eofs]_vars

\* progress variant: each step strictly increases steps; used with StepsLinear
Terminal == pc = "eos" \/ Spinning

Behaviour == [in |-> input, toks |-> out, fin |-> IF pc = "eos" THEN "eos" ELSE "spin", at |-> pc,
              pos |-> pos, eofs |-> eofs, hist |-> Len(hist)]

EmitInv == (Emit /\ Terminal) => PrintT(ToJson(Behaviour))

=============================================================================
