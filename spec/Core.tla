-------------------------------- MODULE Core --------------------------------
(***************************************************************************)
(* Reference model of ruby-ti's inference on the typed fragment the        *)
(* properties C09 (straight-line code), C10 (nil?/is_a? narrowing) and     *)
(* C17 (blocks) speak about, written as a state machine over the abstract  *)
(* environment  env : Var -> Type.  Every behaviour is one program; the    *)
(* history variable `prog` records each statement together with the        *)
(* environment it must produce, which the harness compares with what the   *)
(* real binary reports through `dbtp` probes after every statement.        *)
(*                                                                         *)
(* Types.  A Type is a non-empty set of atoms, or Untyped.  An atom is a    *)
(* class, an array (set of element classes; {} prints as Array<untyped>)   *)
(* or a hash (literal key -> classes of the stored value).                 *)
(*                                                                         *)
(* Deviation switches (Dev_...) model behaviour the code is KNOWN to have  *)
(* and that violates a property; they are FALSE in the intended model.     *)
(***************************************************************************)
EXTENDS Integers, Sequences, FiniteSets, TLC

CONSTANTS
    Vars,            \* variable names of the generated programs
    Scalars,         \* class names literals can have
    ArrLits,         \* array literals: set of sequences of class names
    HashLits,        \* hash literals: set of sequences of [k, c] (key, class of the value)
    Methods,         \* configured methods: set of [recv, name, ret, arg]
    MaxStmts,
    Dev_OptionalUnifyMutatesReceiver

VARIABLES env,   \* Var -> Type; "none" for a variable not assigned yet
          prog   \* history: sequence of [stmt, env]

vars == <<env, prog>>

(* uniform shapes (TLC cannot compare a string with a set):
     atom = [a, n, e, m]   a = "c" (class n) | "arr" (element classes e) | "hsh" (entries m: set of [k, t])
     Type = [k, s]         k = "none" (not assigned yet) | "untyped" | "t" (s = non-empty set of atoms)     *)
None    == [k |-> "none", s |-> {}]
Untyped == [k |-> "untyped", s |-> {}]
T(S)    == [k |-> "t", s |-> S]

Cls(n)  == [a |-> "c", n |-> n, e |-> {}, m |-> {}]
Arr(E)  == [a |-> "arr", n |-> "", e |-> E, m |-> {}]
Hsh(M)  == [a |-> "hsh", n |-> "", e |-> {}, m |-> M]
ClsT(N) == T({Cls(n) : n \in N})            \* the type "one of the classes N"

IsT(t)   == t.k = "t"
TheAtom(t) == CHOOSE x \in t.s : TRUE
IsArrT(t) == IsT(t) /\ Cardinality(t.s) = 1 /\ TheAtom(t).a = "arr"
IsHshT(t) == IsT(t) /\ Cardinality(t.s) = 1 /\ TheAtom(t).a = "hsh"
IsScalarT(t) == IsT(t) /\ \A x \in t.s : x.a = "c"
Names(t) == {x.n : x \in t.s}               \* for scalar types
Elems(t) == TheAtom(t).e
Map(t)   == TheAtom(t).m
Keys(M)  == {p.k : p \in M}
Values(M) == UNION {p.t : p \in M}
Lookup(M, k) == (CHOOSE p \in M : p.k = k).t

RangeOf(s) == {s[i] : i \in DOMAIN s}

(* ---- what a configured return specification evaluates to ----------------*)
\* ret: [k, t]  k = "is" (t = Type) | "self" | "unify" | "ounify" | "arg" | "selfarr" | "kva"
\*              | "unify_nil" (Unify|NilClass) | "unify_str" (Unify|String) | "self_int" (Self|Int)
UnifyNames(recv) == IF IsArrT(recv) THEN Elems(recv) ELSE IF IsHshT(recv) THEN Values(Map(recv)) ELSE {}
Unify(recv) == IF UnifyNames(recv) = {} THEN Untyped ELSE ClsT(UnifyNames(recv))

Ret(ret, recv, argT) ==
    CASE ret.k = "is"      -> ret.t
      [] ret.k = "self"    -> recv
      [] ret.k = "unify"   -> Unify(recv)
      [] ret.k = "ounify"  -> IF UnifyNames(recv) = {} THEN Untyped ELSE ClsT(UnifyNames(recv) \cup {"NilClass"})
      [] ret.k = "arg"     -> argT
      [] ret.k = "selfarr" -> T({Arr(Elems(recv))})
      [] ret.k = "kva"     -> T({Arr(Values(Map(recv)))})
      \* union returns with a special member: the union of what the members resolve to
      [] ret.k = "unify_nil" -> IF UnifyNames(recv) = {} THEN Untyped ELSE ClsT(UnifyNames(recv) \cup {"NilClass"})
      [] ret.k = "unify_str" -> IF UnifyNames(recv) = {} THEN Untyped ELSE ClsT(UnifyNames(recv) \cup {"String"})
      [] ret.k = "self_int"  -> T(recv.s \cup {Cls("Integer")})
      \* conditional ("Match") return Int|Float on an Int|Float parameter: the member at the argument's position
      [] ret.k = "cond"      -> argT

ClassOf(t) == IF IsArrT(t) THEN "Array" ELSE IF IsHshT(t) THEN "Hash"
              ELSE IF IsScalarT(t) /\ Cardinality(t.s) = 1 THEN TheAtom(t).n ELSE "?"

(* ---- statements ------------------------------------------------------------*)
Record(stmt, newEnv) == /\ env' = newEnv /\ prog' = Append(prog, [stmt |-> stmt, env |-> newEnv])

AssignLit(v, c) ==
    Record([op |-> "lit", v |-> v, c |-> c], [env EXCEPT ![v] = ClsT({c})])

AssignArr(v, lit) ==
    Record([op |-> "arr", v |-> v, lit |-> lit], [env EXCEPT ![v] = T({Arr(RangeOf(lit))})])

AssignHash(v, lit) ==
    Record([op |-> "hash", v |-> v, lit |-> lit],
           [env EXCEPT ![v] = T({Hsh({[k |-> lit[i].k, t |-> {lit[i].c}] : i \in DOMAIN lit})})])

AssignTernary(v, c1, c2) ==
    /\ c1 # c2
    /\ Record([op |-> "ternary", v |-> v, c1 |-> c1, c2 |-> c2], [env EXCEPT ![v] = ClsT({c1, c2})])

\* only scalar-typed sources: ti copies on assignment, Ruby aliases arrays/hashes
AssignVar(v, w) ==
    /\ v # w /\ IsScalarT(env[w])
    /\ Record([op |-> "var", v |-> v, w |-> w], [env EXCEPT ![v] = env[w]])

AssignIndexArr(v, w) ==
    /\ v # w /\ IsArrT(env[w]) /\ Elems(env[w]) # {}
    /\ Record([op |-> "idx", v |-> v, w |-> w], [env EXCEPT ![v] = ClsT(Elems(env[w]))])

AssignIndexHash(v, w, k) ==
    /\ v # w /\ IsHshT(env[w]) /\ k \in Keys(Map(env[w]))
    /\ Record([op |-> "key", v |-> v, w |-> w, k |-> k], [env EXCEPT ![v] = ClsT(Lookup(Map(env[w]), k))])

Push(w, c, how) ==
    /\ IsArrT(env[w])
    /\ Record([op |-> how, w |-> w, c |-> c], [env EXCEPT ![w] = T({Arr(Elems(env[w]) \cup {c})})])

AssignCall(v, w, m, argc) ==
    /\ v # w /\ IsT(env[w]) /\ ClassOf(env[w]) = m.recv
    /\ (m.ret.k \in {"unify", "ounify", "selfarr", "unify_nil", "unify_str"} => (IsArrT(env[w]) /\ Elems(env[w]) # {}) \/ (IsHshT(env[w]) /\ m.ret.k # "selfarr"))
    /\ LET r == Ret(m.ret, env[w], ClsT({argc}))
           recv2 == IF Dev_OptionalUnifyMutatesReceiver /\ m.ret.k = "ounify" /\ IsArrT(env[w])
                      THEN T({Arr(Elems(env[w]) \cup {"NilClass"})}) ELSE env[w]
       IN  Record([op |-> "call", v |-> v, w |-> w, m |-> m.name, arg |-> IF m.arg THEN argc ELSE ""],
                  [env EXCEPT ![v] = r, ![w] = recv2])

\* a, b = <literal>, <literal>
FirstVar == CHOOSE x \in Vars : TRUE
AssignMulti(v, w, c1, c2) ==
    /\ v # w /\ c1 # c2
    /\ v = FirstVar            \* one order of the pair is enough
    /\ Record([op |-> "masgn", v |-> v, w |-> w, c1 |-> c1, c2 |-> c2], [env EXCEPT ![v] = ClsT({c1}), ![w] = ClsT({c2})])

\* v += <literal>: the configured + of the receiver's class (Integer#+ and Float#+ are conditional on the operand)
PlusResult(x, c) == CASE x = "String" /\ c = "String" -> "String"
                      [] x = "Integer" /\ c = "Integer" -> "Integer"
                      [] x \in {"Integer", "Float"} /\ c \in {"Integer", "Float"} -> "Float"
                      [] OTHER -> ""
OpAssign(v, c) ==
    /\ IsScalarT(env[v]) /\ Cardinality(env[v].s) = 1 /\ PlusResult(TheAtom(env[v]).n, c) # ""
    /\ Record([op |-> "opasgn", v |-> v, c |-> c], [env EXCEPT ![v] = ClsT({PlusResult(TheAtom(env[v]).n, c)})])

Next ==
    /\ Len(prog) < MaxStmts
    /\ \/ \E v \in Vars, c \in Scalars : AssignLit(v, c)
       \/ \E v \in Vars, lit \in ArrLits : AssignArr(v, lit)
       \/ \E v \in Vars, lit \in HashLits : AssignHash(v, lit)
       \/ \E v \in Vars, c1, c2 \in Scalars : AssignTernary(v, c1, c2)
       \/ \E v, w \in Vars : AssignVar(v, w)
       \/ \E v, w \in Vars : AssignIndexArr(v, w)
       \/ \E v, w \in Vars, k \in {"a", "b"} : AssignIndexHash(v, w, k)
       \/ \E w \in Vars, c \in Scalars, how \in {"push", "shl"} : Push(w, c, how)
       \/ \E v, w \in Vars, m \in Methods, c \in Scalars :
             /\ (m.arg \/ c = CHOOSE x \in Scalars : TRUE)
             /\ (m.ret.k = "cond" => c \in {"Integer", "Float"})
             /\ AssignCall(v, w, m, c)
       \/ \E v, w \in Vars, c1, c2 \in Scalars : AssignMulti(v, w, c1, c2)
       \/ \E v \in Vars, c \in Scalars : OpAssign(v, c)

Init == env = [v \in Vars |-> None] /\ prog = <<>>

Spec == Init /\ [][Next]_vars

(* ---- what TLC checks on the model itself ------------------------------------*)
TypeOK == \A v \in Vars : env[v].k \in {"none", "untyped"} \/ (env[v].k = "t" /\ env[v].s # {})

\* frame condition of straight-line code: a statement changes the variable it assigns
\* (and, for push / <<, the receiver) and nothing else.  The deviation breaks exactly this.
Assigned(s) == IF s.op \in {"push", "shl"} THEN {s.w} ELSE IF s.op = "masgn" THEN {s.v, s.w} ELSE {s.v}
FrameCondition ==
    [][\A x \in Vars : x \notin Assigned(prog'[Len(prog')].stmt) => env'[x] = env[x]]_vars

\* a variable has the type of its most recent assignment
LastAssignment ==
    \A i \in 1..Len(prog) : LET s == prog[i].stmt IN
        s.op = "lit" => prog[i].env[s.v] = ClsT({s.c})
=============================================================================
