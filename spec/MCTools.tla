------------------------------- MODULE MCTools -------------------------------
EXTENDS Tools, Json
CONSTANTS Emit, Part

MCKw == {"ka", "kb", "kc"}
MCKwRank == [k \in MCKw |-> IF k = "ka" THEN 1 ELSE IF k = "kb" THEN 2 ELSE 3]

RbsSigs == {s \in [r : 0..2, o : 0..2, rest : BOOLEAN, t : 0..1, rk : SUBSET MCKw, ok : SUBSET MCKw] :
              s.rk \cap s.ok = {} /\ (s.t = 1 => s.rest)}
CSpecs == [r : 0..2, o : 0..2, rest : BOOLEAN, p : 0..1, blk : BOOLEAN]
FmtChars == {"i", "S", "o", "|", "*", "&", "!", "?"}
Forms == {"method", "method_id", "class_method"}      \* mrb_define_method / mrb_define_method_id / mrb_define_class_method
GetArgs == {g \in [n : 1..3, m : 0..3] : g.m <= g.n}
Count(f, c) == Cardinality({i \in DOMAIN f : f[i] = c})
Formats == {f \in UNION {[1..n -> FmtChars] : n \in 0..4} :
              /\ Count(f, "|") <= 1 /\ Count(f, "*") <= 1 /\ Count(f, "&") <= 1
              /\ \A i \in DOMAIN f : f[i] = "&" => i = Len(f)
              /\ \A i, j \in DOMAIN f : (f[i] = "*" /\ j > i) => f[j] = "&"
              /\ (Count(f, "|") = 1 => f[Len(f)] # "|")
              /\ Count(f, "!") + Count(f, "?") <= 1
              /\ \A i \in DOMAIN f : f[i] = "!" => (i > 1 /\ f[i - 1] \in {"S", "o"})
              /\ \A i \in DOMAIN f : f[i] = "?" => (i > 1 /\ f[i - 1] \in {"i", "S", "o"} /\ \E j \in 1..(i - 1) : f[j] = "|")}

VARIABLE case
MCInit == \/ Part = "rbs" /\ case \in {[kind |-> "rbs", s |-> s] : s \in RbsSigs}
          \/ Part = "cspec" /\ case \in {[kind |-> "cspec", c |-> c, form |-> fm] : c \in CSpecs, fm \in Forms}
          \/ Part = "cany" /\ case \in {[kind |-> "cany", form |-> fm] : fm \in Forms}
          \/ Part = "cgetarg" /\ case \in {[kind |-> "cgetarg", g |-> g] : g \in GetArgs}
          \/ Part = "cfmt" /\ case \in {[kind |-> "cfmt", f |-> f] : f \in Formats}
MCNext == UNCHANGED case
MCSpec == MCInit /\ [][MCNext]_case

Shape     == case.kind = "rbs" => RbsShapeOK(case.s)
Determ    == case.kind = "rbs" => RbsDeterministic(case.s)
RbsArity  == case.kind = "rbs" => RbsArityOK(case.s)
SpecArity == case.kind = "cspec" => SpecArityOK(case.c)
FmtArity  == case.kind = "cfmt" => FormatArityOK(case.f)
AnyArity  == case.kind = "cany" => AnyArityOK
GetArity  == case.kind = "cgetarg" => GetArgArityOK(case.g)

Out == CASE case.kind = "rbs" -> [kind |-> "rbs", s |-> case.s, n |-> Cardinality(RbsEmissions(case.s)),
                                  e |-> CHOOSE e \in RbsEmissions(case.s) : TRUE,
                                  acc |-> [k \in 0..6 |-> RbsAccepts(case.s, k)]]
         [] case.kind = "cany" -> [kind |-> "cany", form |-> case.form, e |-> AnyEmission, acc |-> [k \in 0..6 |-> TRUE]]
         [] case.kind = "cgetarg" -> [kind |-> "cgetarg", g |-> case.g, e |-> GetArgEmission(case.g),
                                      acc |-> [k \in 0..6 |-> GetArgAccepts(case.g, k)]]
         [] case.kind = "cspec" -> [kind |-> "cspec", c |-> case.c, form |-> case.form, macros |-> Macros(case.c), e |-> SpecEmission(case.c),
                                    acc |-> [k \in 0..6 |-> CAccepts(case.c, k)], asisacc |-> [k \in 0..6 |-> CfgAccepts(SpecEmission(case.c), k)]]
         [] OTHER -> [kind |-> "cfmt", f |-> case.f, e |-> FormatEmission(case.f), acc |-> [k \in 0..6 |-> FormatAccepts(case.f, k)]]
EmitInv == Emit => PrintT(ToJson(Out))
=============================================================================
