SPECIFICATION Spec
CONSTANTS
  Iters <- MCIters
  Names <- MCNames
  MaxVars = @@MAXVARS@@
  MaxDepth = @@MAXDEPTH@@
  MaxBlocks = @@MAXBLOCKS@@
  Emit = @@EMIT@@
INVARIANTS OnlyShadowing EmitInv
PROPERTIES ScopeRestored
