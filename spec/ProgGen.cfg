SPECIFICATION Spec
CONSTANTS
  Mode = @@MODE@@
  Tokens = @@TOKENS@@
  MaxLen = @@MAXLEN@@
  MaxStmts = @@MAXSTMTS@@
  MaxDepth = @@MAXDEPTH@@
  MaxMut = @@MAXMUT@@
  Junk = @@JUNK@@
INVARIANTS EmitInv
VIEW View
