------------------------------ MODULE MCMethods ------------------------------
EXTENDS Methods, Json
CONSTANTS Emit, NMethods, MaxSites, Ctxs   \* Ctxs: where a top-level call may sit: plain | if-cond | arg | block | while-cond

MCNames == IF NMethods = 2 THEN {"ma", "mb"} ELSE {"ma", "mb", "mc"}
Bodies == [k : {"param", "lit"}, callee : {""}] \cup [k : {"call"}, callee : MCNames]
Classes3 == {"Integer", "String", "Float"}
Perms(S) == {s \in [1..Cardinality(S) -> S] : \A i, j \in 1..Cardinality(S) : i # j => s[i] # s[j]}

VARIABLE prog
MCInit == prog \in {p \in [body : [MCNames -> Bodies],
                          sites : UNION {[1..n -> [callee : MCNames, c : Classes3, ctx : Ctxs]] : n \in 1..MaxSites},
                          order : Perms(MCNames)] :
                    /\ Acyclic(p)
                    /\ \A m \in MCNames : p.body[m].k = "call" => p.body[m].callee # m
                    /\ \A m \in MCNames : TotalCallers(p, m) > 0}      \* every method is called from somewhere
MCNext == UNCHANGED prog
MCSpec == MCInit /\ [][MCNext]_prog

N == Cardinality(MCNames)
\* sanity of the reference: a method's result is never empty when all its inputs are known
Grounded == \A m \in MCNames : ParamT(prog, m, N) # {} => RetT(prog, m, N) # {}
\* parameter types only grow along call edges
Monotone == \A m \in MCNames : \A n \in Callers(prog, m) : ParamT(prog, n, N) \subseteq ParamT(prog, m, N)

Out == [body |-> prog.body, sites |-> prog.sites, order |-> prog.order,
        param |-> [m \in MCNames |-> ParamT(prog, m, N)], ret |-> [m \in MCNames |-> RetT(prog, m, N)],
        depth |-> [m \in MCNames |-> Depth(prog, m, N)],
        callers |-> [m \in MCNames |-> [top |-> TopSites(prog, m), body |-> BodySites(prog, m), total |-> TotalCallers(prog, m)]]]
EmitInv == Emit => PrintT(ToJson(Out))
=============================================================================
