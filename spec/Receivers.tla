------------------------------ MODULE Receivers ------------------------------
(***************************************************************************)
(* C07 / C08 on the receiver side: which class can answer a call.          *)
(*                                                                         *)
(* A receiver is a non-empty set of possible classes (a union built with a *)
(* ternary when it has two members, NilClass possibly among them); a call  *)
(* is written `r.m` or `r&.m` (safe navigation: a nil receiver answers nil *)
(* without calling).  A configured method is declared by a set of classes; *)
(* VfA extends VfP, so what VfP declares VfA inherits.                     *)
(*                                                                         *)
(*   MustFail  no possible receiver class declares or inherits the method  *)
(*             (a nil member is not asked when the call uses &.)           *)
(*   MustPass  every possible receiver class declares or inherits it       *)
(* Everything in between is not judged.                                    *)
(***************************************************************************)
EXTENDS Integers, Sequences, FiniteSets, TLC

Classes == {"VfA", "VfB", "NilClass", "Integer"}
Parent == [c \in Classes |-> IF c = "VfA" THEN "VfP" ELSE ""]
\* configured methods: name -> classes that declare it
Declared == [m_a |-> {"VfA"}, m_b |-> {"VfB"}, m_ab |-> {"VfA", "VfB"}, m_p |-> {"VfP"}, m_none |-> {},
             m_int |-> {"Integer"}, m_ai |-> {"VfA", "Integer"}]
Methods == DOMAIN Declared

Answers(c, m) == c \in Declared[m] \/ (Parent[c] # "" /\ Parent[c] \in Declared[m])
Asked(recv, nav) == IF nav = "&." THEN recv \ {"NilClass"} ELSE recv

VARIABLES recv, nav, meth
vars == <<recv, nav, meth>>
Init == /\ recv \in {S \in SUBSET Classes : Cardinality(S) \in {1, 2}}
        /\ nav \in {".", "&."}
        /\ meth \in Methods
Next == UNCHANGED vars
Spec == Init /\ [][Next]_vars

MustFail == Asked(recv, nav) # {} /\ \A c \in Asked(recv, nav) : ~Answers(c, meth)
MustPass == \A c \in Asked(recv, nav) : Answers(c, meth)
Consistent == ~(MustFail /\ MustPass) \/ Asked(recv, nav) = {}
\* safe navigation never turns a certain failure on the non-nil members into an acceptance
SafeNavOnlySkipsNil == (nav = "&." /\ recv \ {"NilClass"} # {} /\ \A c \in recv \ {"NilClass"} : ~Answers(c, meth)) => MustFail
=============================================================================
