----------------------------- MODULE SweepBinder -----------------------------
(***************************************************************************)
(* Judges a file of (declarations, call) cases with Binder: the reference  *)
(* verdicts MustFail / MustPass and the as-is binder's result.  The cases  *)
(* are produced by the harness from a .ti-config (its own reader) - one    *)
(* sweep over every configured method - so that TLC, not the harness,      *)
(* decides what the configuration certainly accepts or rejects.            *)
(***************************************************************************)
EXTENDS Binder, Json

CONSTANT CaseFile
Cases == ndJsonDeserialize(CaseFile)

SWKeys == {"k01","k02","k03","k04","k05","k06","k07","k08"}
SWKeyOrder == [k \in SWKeys \cup {""} |->
    CASE k = "" -> 0 [] k = "k01" -> 1 [] k = "k02" -> 2 [] k = "k03" -> 3 [] k = "k04" -> 4 [] k = "k05" -> 5
      [] k = "k06" -> 6 [] k = "k07" -> 7 [] OTHER -> 8]

VARIABLE l
SetOf(s) == {s[i] : i \in DOMAIN s}
Ty(t) == [k |-> t.k, u |-> t.u, vs |-> SetOf(t.vs)]
Decl(d) == [i \in DOMAIN d |-> [kind |-> d[i].kind, key |-> d[i].key, ty |-> Ty(d[i].ty)]]
Call(a) == [i \in DOMAIN a |-> [key |-> a[i].key, ty |-> Ty(a[i].ty)]]

SWInit == l = 1
SWNext == /\ l <= Len(Cases)
          /\ LET c == Cases[l]
                 decls == [i \in DOMAIN c.decls |-> Decl(c.decls[i])]
                 A == Call(c.args)
             IN  PrintT(ToJson([id |-> c.id, mf |-> MustFail(decls, A), mp |-> MustPass(decls, A),
                                asis |-> AsIsCall(decls, A, c.anyret).res]))
          /\ l' = l + 1
SWSpec == SWInit /\ [][SWNext]_l
=============================================================================
