------------------------------ MODULE MCClasses ------------------------------
(* Bounded universe of class graphs for Classes: each initial state is one graph together with *)
(* the judgement of every query the harness will write as a source row.                        *)
EXTENDS Classes, Json

CONSTANT Emit

K == {"K1", "K2", "K3"}
Shapes == {
  [cls |-> <<"K1">>,             sup |-> [c \in K |-> ""]],
  [cls |-> <<"K1", "K2">>,       sup |-> [c \in K |-> IF c = "K2" THEN "K1" ELSE ""]],
  [cls |-> <<"K1", "K2", "K3">>, sup |-> [c \in K |-> IF c = "K2" THEN "K1" ELSE IF c = "K3" THEN "K2" ELSE ""]],
  [cls |-> <<"K1", "K2", "K3">>, sup |-> [c \in K |-> IF c \in {"K2", "K3"} THEN "K1" ELSE ""]] }

RangeOf(s) == {s[i] : i \in DOMAIN s}
D(owner, name, static, vis, ret, how, reopened) ==
    [owner |-> owner, name |-> name, static |-> static, vis |-> vis, ret |-> ret, how |-> how, reopened |-> reopened]

VARIABLES g, shape
mcvars == <<g, shape>>

FooDefs(cs) == {D(o, "foo", FALSE, v, "Integer", "def", FALSE) : o \in cs, v \in {"public", "private", "protected"}}
               \cup {D(o, "foo", TRUE, "public", "Integer", h, FALSE) : o \in cs, h \in {"self", "sclass"}}
               \* `class << self ; private ; def foo` - written FIRST in the class body: the section must end with the block
               \cup {D(o, "foo", TRUE, "private", "Integer", "sclass", FALSE) : o \in cs}
BarDefs(cs) == {{}} \cup {{D(o, "bar", FALSE, v, "String", "def", FALSE)} : o \in cs, v \in {"public", "private"}}
               \* attr_accessor :bar  with  @bar = "s"  assigned in a method of the same class
               \cup {{D(o, "bar", FALSE, "public", "String", "attr", FALSE)} : o \in cs}

MCInit ==
    \E sh \in Shapes :
      LET cs == RangeOf(sh.cls) IN
      \E foo \in FooDefs(cs), bar \in BarDefs(cs), incAt \in cs \cup {""}, extAt \in cs \cup {""},
         ini \in {-1, 0, 1}, reopen \in BOOLEAN, modhid \in BOOLEAN :
        /\ shape = sh.cls
        /\ g = [sup  |-> sh.sup,
                inc  |-> [c \in K |-> IF c = incAt THEN {"M1"} ELSE {}],
                ext  |-> [c \in K |-> IF c = extAt THEN {"M1"} ELSE {}],
                init |-> [c \in K |-> IF c = "K1" THEN ini ELSE -1],
                defs |-> {foo} \cup bar \cup {D("M1", "mix", FALSE, "public", "Float", "def", FALSE)}
                         \* the module starts with `class << self ; private ; def hid` before its public `mix`
                         \cup (IF modhid THEN {D("M1", "hid", TRUE, "private", "Integer", "sclass", FALSE)} ELSE {})
                         \cup (IF reopen THEN {D(foo.owner, "baz", FALSE, "public", "Symbol", "def", TRUE)} ELSE {})]

MCNext == UNCHANGED mcvars
MCSpec == MCInit /\ [][MCNext]_mcvars

Queries ==
    [c \in RangeOf(shape) |->
        [inst   |-> [n \in {"foo", "bar", "baz", "mix", "nope"} |-> InstCall(g, c, n)],
         static |-> [n \in {"foo", "mix", "nope"} |-> StaticCall(g, c, n)],
         arity  |-> InitArity(g, Chain(g, c, {}))]]

\* ---- checked on the model --------------------------------------------------------------
\* C20 / C27: a class under another path (here: an extra class "Decoy" that nothing reaches, with
\* methods of the same names but other results, and an extra module) cannot change any judgement
Decoyed ==
    [g EXCEPT !.defs = @ \cup {D("Decoy", "foo", FALSE, "public", "Float", "def", FALSE),
                               D("Decoy", "bar", TRUE, "public", "Float", "self", FALSE),
                               D("M9", "mix", FALSE, "private", "Symbol", "def", FALSE)}]
Locality ==
    \A c \in RangeOf(shape) :
        /\ \A n \in {"foo", "bar", "baz", "mix", "nope"} : InstCall(Decoyed, c, n) = InstCall(g, c, n)
        /\ \A n \in {"foo", "mix", "nope"} : StaticCall(Decoyed, c, n) = StaticCall(g, c, n)
\* the resolution walk ends on a cyclic superclass graph
CyclicSup == [g EXCEPT !.sup = [c \in K |-> IF c = "K1" THEN "K2" ELSE IF c = "K2" THEN "K1" ELSE ""]]
TerminatesOnCycles == Len(Chain(CyclicSup, "K1", {})) = 2 /\ InstCall(CyclicSup, "K1", "nope").k = "undefined"
\* a private / protected definition never makes a method invisible to lookup (it is found and then judged)
VisibilityIsJudgedNotHidden ==
    \A c \in RangeOf(shape) : \A n \in {"foo", "bar"} :
        InstCall(g, c, n).k \in {"private", "protected"} => ResolveInst(g, c, n) # {}

EmitInv == Emit => PrintT(ToJson([shape |-> shape, g |-> [sup |-> g.sup, inc |-> g.inc, ext |-> g.ext, init |-> g.init, defs |-> g.defs],
                                  q |-> Queries]))
=============================================================================
