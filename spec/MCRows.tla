------------------------------- MODULE MCRows -------------------------------
EXTENDS Rows, Json
CONSTANT Emit
Tk(k, n, txt) == [k |-> k, n |-> n, txt |-> txt]
MCTokens == {Tk("w", 0, "w"), Tk("nl", 0, "nl"), Tk("str", 0, "A"), Tk("str", 1, "B"), Tk("str", 1, "C"), Tk("str", 2, "D")}
EmitInv == (Emit /\ Done) => PrintT(ToJson([src |-> src, ops |-> ops]))
=============================================================================
