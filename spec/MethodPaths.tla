----------------------------- MODULE MethodPaths -----------------------------
(***************************************************************************)
(* A method reached through inheritance and across namespaces (C15, C24).  *)
(*                                                                         *)
(*   class Top ; def mm(arg) ; arg ; end ; end                             *)
(*   class Mid < Top ; class Leaf < Mid                                    *)
(* each of the three classes is written at the top level or inside one of  *)
(* two namespaces (place).  A call site is  <class>.new.mm(<literal>)      *)
(*   via    the class the receiver is created from (Top / Mid / Leaf)      *)
(*   c      the literal's class                                            *)
(*   from   where the call is written: at the top level, inside a          *)
(*          top-level method, or inside a method of a class in a namespace *)
(*                                                                         *)
(* Reference: every site is a call of Top#mm whatever `via`, `place` and   *)
(* `from` are: its argument class joins the parameter type, its result is  *)
(* the parameter type, and it is one caller entry of mm in the call graph. *)
(***************************************************************************)
EXTENDS Integers, Sequences, FiniteSets, TLC

CONSTANT MaxSites

Cls == {"Top", "Mid", "Leaf"}
Namespaces == {"", "Na", "Nb"}
Sites == [via : Cls, c : {"Integer", "String", "Float"}, from : {"toplevel", "method", "Na", "Nb"}]

VARIABLE prog
Init == prog \in [place : [Cls -> Namespaces], sites : UNION {[1..n -> Sites] : n \in 1..MaxSites}]
Next == UNCHANGED prog
Spec == Init /\ [][Next]_prog

ArgT(p) == {p.sites[i].c : i \in DOMAIN p.sites}
RetT(p) == ArgT(p)
Callers(p) == DOMAIN p.sites
\* how many inheritance steps and namespace changes lie between the receiver's class and the definition
Steps(v) == CASE v = "Top" -> 0 [] v = "Mid" -> 1 [] OTHER -> 2
CrossesNamespace(p, v) ==
    \/ (v \in {"Mid", "Leaf"} /\ p.place["Mid"] # p.place["Top"])
    \/ (v = "Leaf" /\ p.place["Leaf"] # p.place["Mid"])

\* the reference does not look at place / via / from at all
PlacementIrrelevant == \A q \in [Cls -> Namespaces] : ArgT([prog EXCEPT !.place = q]) = ArgT(prog)
EveryTypeHasASite == \A c \in ArgT(prog) : \E i \in Callers(prog) : prog.sites[i].c = c
=============================================================================
