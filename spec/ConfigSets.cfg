SPECIFICATION Spec
INVARIANTS EmitInv
