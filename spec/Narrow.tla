------------------------------- MODULE Narrow -------------------------------
(***************************************************************************)
(* Reference model of nil? / is_a? narrowing in if / unless / elsif / else *)
(* (property C10), as a state machine that writes a program line by line.  *)
(*                                                                         *)
(* State: env (class set of each variable), a stack of open conditionals,  *)
(* and the history `prog` (each written line with the environment that     *)
(* must hold right after it).  A branch admits a REGION of the variable    *)
(* assignments (tuples) still possible; the type of a variable inside the  *)
(* branch is the projection of that region - exactly the variants the      *)
(* branch admits.  When the conditional ends every variable has its        *)
(* pre-conditional type again (no branch assigns the narrowed variables).  *)
(* An empty region (e.g. `else` after an exhaustive is_a? chain) leaves    *)
(* the branch unspecified.                                                 *)
(***************************************************************************)
EXTENDS Integers, Sequences, FiniteSets, TLC

CONSTANTS
    InitX, InitY,     \* sets of possible initial types (sets of class names) of x and y
    Conds,            \* conditions: non-empty sequences (conjunctions, `&&`) of atoms
                      \* [k |-> "nil" | "notnil" | "isa", v |-> variable, c |-> class ("" unless isa)]
    MaxDepth,         \* nesting depth of conditionals
    MaxIfs,           \* conditionals per program
    AllowElsif, AllowUnless, AllowStmt

VARIABLES env,     \* [x |-> set, y |-> set]; {} = unspecified (empty region)
          stack,   \* open conditionals: [saved, rest, kind, hasElse, nElsif, nStmt]
          prog,    \* history: <<[line, env]>>
          nifs

vars == <<env, stack, prog, nifs>>

V == {"x", "y"}
Tuples(e) == {t \in [V -> UNION {e[v] : v \in V}] : \A v \in V : t[v] \in e[v]}

HoldsAtom(a, t) ==
    CASE a.k = "nil"    -> t[a.v] = "NilClass"
      [] a.k = "notnil" -> t[a.v] # "NilClass"
      [] a.k = "isa"    -> t[a.v] = a.c
Holds(c, t) == \A i \in DOMAIN c : HoldsAtom(c[i], t)

Project(R) == [v \in V |-> {t[v] : t \in R}]

Line(l, e) == prog' = Append(prog, [line |-> l, env |-> e])

Top == stack[Len(stack)]
Pop == SubSeq(stack, 1, Len(stack) - 1)

Start(tx, ty) ==
    /\ prog = <<>>
    /\ env' = [x |-> tx, y |-> ty]
    /\ prog' = <<[line |-> [op |-> "init", x |-> tx, y |-> ty], env |-> [x |-> tx, y |-> ty]]>>
    /\ UNCHANGED <<stack, nifs>>

\* `if c` / `unless c`: the branch admits the tuples on which c holds (does not hold)
IfEnter(kind, c) ==
    /\ prog # <<>> /\ Len(stack) < MaxDepth /\ nifs < MaxIfs
    /\ (kind = "unless" => AllowUnless)
    /\ \A v \in V : env[v] # {}                                   \* not inside an unspecified branch
    /\ LET all == Tuples(env)
           yes == {t \in all : Holds(c, t)}
           adm == IF kind = "if" THEN yes ELSE all \ yes
           e2  == Project(adm)
       IN  /\ env' = e2
           /\ stack' = Append(stack, [saved |-> env, rest |-> all \ adm, kind |-> kind,
                                      hasElse |-> FALSE, nElsif |-> 0, nStmt |-> 0])
           /\ Line([op |-> kind, c |-> c], e2)
    /\ nifs' = nifs + 1

Elsif(c) ==
    /\ AllowElsif /\ stack # <<>> /\ Top.kind = "if" /\ ~Top.hasElse /\ Top.nElsif = 0
    /\ LET adm == {t \in Top.rest : Holds(c, t)}
           e2  == Project(adm)
       IN  /\ env' = e2
           /\ stack' = Append(Pop, [Top EXCEPT !.rest = Top.rest \ adm, !.nElsif = 1, !.nStmt = 0])
           /\ Line([op |-> "elsif", c |-> c], e2)
    /\ UNCHANGED nifs

Else ==
    /\ stack # <<>> /\ ~Top.hasElse
    /\ LET e2 == Project(Top.rest)
       IN  /\ env' = e2
           /\ stack' = Append(Pop, [Top EXCEPT !.hasElse = TRUE, !.nStmt = 0])
           /\ Line([op |-> "else"], e2)
    /\ UNCHANGED nifs

\* an unrelated statement inside a branch (assigns a third variable)
Stmt ==
    /\ AllowStmt /\ stack # <<>> /\ Top.nStmt = 0
    /\ stack' = Append(Pop, [Top EXCEPT !.nStmt = 1])
    /\ Line([op |-> "stmt", form |-> "plain"], env)
    /\ UNCHANGED <<env, nifs>>

\* an unrelated statement carrying an if / unless MODIFIER (`z = 1 if true`) directly in front
\* of a top-level conditional: it touches neither x nor y
TopStmt ==
    /\ AllowStmt /\ stack = <<>> /\ prog # <<>> /\ prog[Len(prog)].line.op # "stmt" /\ nifs < MaxIfs
    /\ \E form \in {"if-modifier", "unless-modifier"} : Line([op |-> "stmt", form |-> form], env)
    /\ UNCHANGED <<env, stack, nifs>>

\* `end`: the pre-conditional types are back
IfExit ==
    /\ stack # <<>>
    /\ env' = Top.saved
    /\ stack' = Pop
    /\ Line([op |-> "end"], Top.saved)
    /\ UNCHANGED nifs

Next ==
    \/ \E tx \in InitX, ty \in InitY : Start(tx, ty)
    \/ \E kind \in {"if", "unless"}, c \in Conds : IfEnter(kind, c)
    \/ \E c \in Conds : Elsif(c)
    \/ Else \/ Stmt \/ TopStmt \/ IfExit

Init == env = [x |-> {}, y |-> {}] /\ stack = <<>> /\ prog = <<>> /\ nifs = 0

Spec == Init /\ [][Next]_vars

(* ---- checked on the model -----------------------------------------------------*)
\* stack discipline + restoration: when a conditional ends, x and y are what they were before it
Restored == [][(Len(stack') < Len(stack)) => env' = stack[Len(stack)].saved]_vars
\* narrowing never widens: inside any branch each variable's set is a subset of its type before
NeverWidens == \A i \in 1..Len(stack) : \A v \in V : env[v] \subseteq stack[i].saved[v]
\* exactness w.r.t. the admitted region: the branches of one conditional partition the tuples
\* (what `else` sees is exactly what no earlier branch admitted) - by construction of rest
Complete == stack = <<>> /\ nifs > 0
=============================================================================
