SPECIFICATION Spec
INVARIANTS SpellingIrrelevant EmitInv
