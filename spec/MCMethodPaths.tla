---------------------------- MODULE MCMethodPaths ----------------------------
EXTENDS MethodPaths, Json
CONSTANT Emit
EmitInv == Emit => PrintT(ToJson([place |-> prog.place, sites |-> prog.sites, argT |-> ArgT(prog), retT |-> RetT(prog),
                                  cross |-> [i \in DOMAIN prog.sites |-> CrossesNamespace(prog, prog.sites[i].via)]]))
=============================================================================
