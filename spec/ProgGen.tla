------------------------------ MODULE ProgGen ------------------------------
(***************************************************************************)
(* The input space of the robustness properties C01 / C02 / C04 as a TLA+  *)
(* state machine: every reachable state is one source text (a sequence of  *)
(* abstract tokens that the harness renders to bytes).                     *)
(*                                                                         *)
(*  Mode = "all"     every token sequence over Tokens of length <= MaxLen  *)
(*  Mode = "calls"   a method definition with one of ParamLists, then a  *)
(*                   call with every argument list over CallArgs of length *)
(*                   <= MaxLen (positional, splat, keyword, double splat)  *)
(*  Mode = "grammar" programs built statement by statement from a small    *)
(*                   Ruby grammar (with nesting), then up to MaxMut        *)
(*                   token-level mutations: Drop, Dup, Swap, Truncate,     *)
(*                   InsertJunk.  Truncate at every position = every       *)
(*                   prefix = what an editor sends while the user types.   *)
(*                                                                         *)
(* Nothing is checked on this module: it IS the quantifier.  The invariant *)
(* EmitInv prints each generated text once (TLC visits each distinct state *)
(* once), the harness runs the real binary on it.                          *)
(***************************************************************************)
EXTENDS Integers, Sequences, FiniteSets, TLC, Json

CONSTANTS Mode, Tokens, MaxLen, MaxStmts, MaxDepth, MaxMut, Junk

\* Mode "calls"
ParamLists == { <<>>, <<"a">>, <<"a", ",", "b", "=", "1">>, <<"a", ",", "*", "r">>, <<"a", ",", "k:">>,
                <<"a", ",", "k:", "1", ",", "**", "o">>, <<"*", "r", ",", "b">> }
CallArgs == { "1", "\"s\"", "x", "*x", "k: 1", "**h", "z: 1" }

VARIABLES toks,   \* the text so far
          open,   \* stack of open constructs (grammar mode)
          nst,    \* statements emitted
          phase,  \* "build" | "mutate"
          nmut    \* mutations applied

vars == <<toks, open, nst, phase, nmut>>

NL == "\n"

(* statement templates: straight-line ones ...                              *)
Simple == {
  <<"x", "=", "1", NL>>,
  <<"x", "=", "\"s\"", NL>>,
  <<"x", "=", "[", "1", ",", "\"s\"", "]", NL>>,
  <<"x", "=", "{", "a:", "1", "}", NL>>,
  <<"y", "=", "x", ".", "m", "(", "1", ")", NL>>,
  <<"x", ".", "m", NL>>,
  <<"y", "=", "Foo", ".", "new", "(", "1", ")", NL>>,
  <<"y", "=", "x", "?", "1", ":", "nil", NL>>,
  <<"x", "[", "0", "]", "=", "1", NL>>,
  <<"return", "x", NL>>,
  <<"m", "(", "x", ",", "k:", "1", ")", NL>>,
  <<"attr_accessor", ":a", NL>>,
  <<"private", NL>>,
  <<"include", "Foo", NL>>
}

(* ... and block-opening ones (closed by "end")                            *)
Openers == {
  <<"def", "m", "(", "a", ",", "b", "=", "1", ")", NL>>,
  <<"def", "self", ".", "m", NL>>,
  <<"class", "Foo", "<", "Bar", NL>>,
  <<"class", "Foo", NL>>,
  <<"module", "Mod", NL>>,
  <<"if", "x", ".", "nil?", NL>>,
  <<"unless", "x", NL>>,
  <<"while", "x", NL>>,
  <<"case", "x", NL, "when", "1", NL>>,
  <<"case", "x", NL, "in", "Integer", NL>>,
  <<"x", ".", "each", "do", "|", "e", "|", NL>>,
  <<"begin", NL>>
}

Middles == { <<"else", NL>>, <<"elsif", "y", NL>>, <<"rescue", NL>>, <<"when", "2", NL>>, <<"in", "String", NL>> }

Closer == <<"end", NL>>

(* ---- Mode "all" --------------------------------------------------------*)
AllAppend ==
    /\ Mode = "all" /\ Len(toks) < MaxLen
    /\ \E t \in Tokens : toks' = Append(toks, t)
    /\ UNCHANGED <<open, nst, phase, nmut>>

(* ---- Mode "calls" ------------------------------------------------------*)
RECURSIVE Join(_)
Join(args) == IF args = <<>> THEN <<>> ELSE IF Len(args) = 1 THEN <<args[1]>> ELSE <<args[1], ",">> \o Join(Tail(args))

CallsStart ==
    /\ Mode = "calls" /\ toks = <<>>
    /\ \E pl \in ParamLists, n \in 0..MaxLen : \E args \in [1..n -> CallArgs] :
         toks' = <<"def", "m", "(">> \o pl \o <<")", NL, "a", NL, "end", NL,
                   "x", "=", "[", "1", "]", NL, "h", "=", "{", "a:", "1", "}", NL,
                   "m", "(">> \o Join(args) \o <<")", NL>>
    /\ nst' = 1
    /\ UNCHANGED <<open, phase, nmut>>

(* ---- Mode "grammar" ----------------------------------------------------*)
EmitSimple ==
    /\ Mode = "grammar" /\ phase = "build" /\ nst < MaxStmts
    /\ \E s \in Simple : toks' = toks \o s
    /\ nst' = nst + 1
    /\ UNCHANGED <<open, phase, nmut>>

EmitOpen ==
    /\ Mode = "grammar" /\ phase = "build" /\ nst < MaxStmts /\ Len(open) < MaxDepth
    /\ \E s \in Openers : toks' = toks \o s /\ open' = Append(open, s[1])
    /\ nst' = nst + 1
    /\ UNCHANGED <<phase, nmut>>

EmitMiddle ==
    /\ Mode = "grammar" /\ phase = "build" /\ nst < MaxStmts /\ Len(open) > 0
    /\ \E s \in Middles : toks' = toks \o s
    /\ nst' = nst + 1
    /\ UNCHANGED <<open, phase, nmut>>

EmitClose ==
    /\ Mode = "grammar" /\ phase = "build" /\ Len(open) > 0
    /\ toks' = toks \o Closer
    /\ open' = SubSeq(open, 1, Len(open) - 1)
    /\ UNCHANGED <<nst, phase, nmut>>

StartMutate ==
    /\ Mode = "grammar" /\ phase = "build" /\ open = <<>> /\ Len(toks) > 0 /\ MaxMut > 0
    /\ phase' = "mutate"
    /\ UNCHANGED <<toks, open, nst, nmut>>

Remove(s, i) == SubSeq(s, 1, i - 1) \o SubSeq(s, i + 1, Len(s))
InsertAt(s, i, t) == SubSeq(s, 1, i - 1) \o <<t>> \o SubSeq(s, i, Len(s))

Mutate ==
    /\ phase = "mutate" /\ nmut < MaxMut
    /\ \E i \in 1..Len(toks) :
         \/ toks' = Remove(toks, i)                                         \* Drop
         \/ toks' = InsertAt(toks, i, toks[i])                              \* Dup
         \/ i < Len(toks) /\ toks' = [toks EXCEPT ![i] = toks[i+1], ![i+1] = toks[i]]  \* Swap
         \/ toks' = SubSeq(toks, 1, i - 1)                                  \* Truncate (every prefix)
         \/ \E t \in Junk : toks' = InsertAt(toks, i, t)                    \* InsertJunk
    /\ nmut' = nmut + 1
    /\ UNCHANGED <<open, nst, phase>>

Next == AllAppend \/ CallsStart \/ EmitSimple \/ EmitOpen \/ EmitMiddle \/ EmitClose \/ StartMutate \/ Mutate

Init == toks = <<>> /\ open = <<>> /\ nst = 0 /\ phase = "build" /\ nmut = 0

Spec == Init /\ [][Next]_vars

\* which states are handed to the harness
Emittable ==
    \/ Mode = "all"
    \/ Mode = "calls" /\ toks # <<>>
    \/ Mode = "grammar" /\ phase = "build" /\ open = <<>> /\ Len(toks) > 0
    \/ Mode = "grammar" /\ phase = "mutate" /\ nmut > 0

EmitInv == Emittable => PrintT(ToJson([t |-> toks, m |-> nmut]))

\* two programs are the same input if their token sequences are equal
View == <<toks, IF phase = "build" THEN open ELSE <<>>, IF phase = "build" THEN nst ELSE 0, phase, nmut>>
=============================================================================
