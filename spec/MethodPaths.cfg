SPECIFICATION Spec
CONSTANTS
  MaxSites = @@MAXSITES@@
  Emit = @@EMIT@@
INVARIANTS PlacementIrrelevant EveryTypeHasASite EmitInv
