------------------------------- MODULE Methods -------------------------------
(***************************************************************************)
(* Reference model of user-defined methods: what ti must infer for their   *)
(* parameters and results from ALL call sites (C15), and which call sites  *)
(* each method has (the call graph of C24).                                *)
(*                                                                         *)
(* A program has methods, each with one parameter p and a body that        *)
(*   "param"  returns p                                                    *)
(*   "lit"    returns a String literal                                     *)
(*   "call"   returns callee(p)  (the call graph is acyclic)               *)
(* and top-level call sites  callee(literal of class c).                   *)
(* The definitions can be written in any order (caller first or callee     *)
(* first) - the analysis runs its rounds define / collect / inference /    *)
(* check over the whole file, and the result must not depend on it.        *)
(*                                                                         *)
(*   ParamT(m) = classes passed at the top-level sites of m, plus ParamT   *)
(*               of every method whose body calls m (it passes its p on)   *)
(*   RetT(m)   = ParamT(m) | {String} | RetT(callee)                       *)
(* Both are least fixed points; the graph is acyclic, so a depth-bounded   *)
(* recursion computes them.                                                *)
(***************************************************************************)
EXTENDS Integers, Sequences, FiniteSets, TLC

CONSTANT MethodNames

\* a program: [body: MethodNames -> [k, callee], sites: sequence of [callee, c, ctx], order: sequence of MethodNames]
\* (ctx: the syntactic position of a top-level call - plain statement, if / while condition, argument, inside a block,
\*  "twice": the call written two times on one row, i.e. two call sites with the same row)
Callers(prog, m) == {n \in MethodNames : prog.body[n].k = "call" /\ prog.body[n].callee = m}

RECURSIVE ParamT(_, _, _)
ParamT(prog, m, fuel) ==
    {prog.sites[i].c : i \in {j \in DOMAIN prog.sites : prog.sites[j].callee = m}}
    \cup (IF fuel = 0 THEN {} ELSE UNION {ParamT(prog, n, fuel - 1) : n \in Callers(prog, m)})

RECURSIVE RetT(_, _, _)
RetT(prog, m, fuel) ==
    CASE prog.body[m].k = "param" -> ParamT(prog, m, Cardinality(MethodNames))
      [] prog.body[m].k = "lit"   -> {"String"}
      [] OTHER -> IF fuel = 0 THEN {} ELSE RetT(prog, prog.body[m].callee, fuel - 1)

\* the call graph is acyclic: following "call" bodies from m never returns to m
RECURSIVE Reaches(_, _, _, _)
Reaches(prog, from, to, fuel) ==
    IF fuel = 0 \/ prog.body[from].k # "call" THEN FALSE
    ELSE prog.body[from].callee = to \/ Reaches(prog, prog.body[from].callee, to, fuel - 1)
Acyclic(prog) == \A m \in MethodNames : ~Reaches(prog, m, m, Cardinality(MethodNames) + 1)

\* call depth of m: how many rounds a callee-first file needs before m's parameter is known
RECURSIVE Depth(_, _, _)
Depth(prog, m, fuel) ==
    IF fuel = 0 \/ Callers(prog, m) = {} THEN 0
    ELSE 1 + (CHOOSE d \in {Depth(prog, n, fuel - 1) : n \in Callers(prog, m)} :
                 \A e \in {Depth(prog, n, fuel - 1) : n \in Callers(prog, m)} : d >= e)

\* call graph (C24): the call sites of m
TopSites(prog, m) == {i \in DOMAIN prog.sites : prog.sites[i].callee = m}
BodySites(prog, m) == Callers(prog, m)
TotalCallers(prog, m) == Cardinality(TopSites(prog, m)) + Cardinality(BodySites(prog, m))
=============================================================================
