SPECIFICATION Spec
CONSTANTS
  Files <- GenFiles
  WalkParents = @@WALK@@
INVARIANTS OrderIndependent
