SPECIFICATION Spec
CONSTANTS
  InitX <- MCInitX
  InitY <- MCInitY
  Conds <- MCConds
  MaxDepth = @@MAXDEPTH@@
  MaxIfs = @@MAXIFS@@
  AllowElsif = @@ELSIF@@
  AllowUnless = @@UNLESS@@
  AllowStmt = @@STMT@@
  Emit = @@EMIT@@
  Rich = @@RICH@@
  Objects = @@OBJECTS@@
INVARIANTS NeverWidens EmitInv
PROPERTIES Restored
