SPECIFICATION MCSpec
CONSTANTS
  Emit = @@EMIT@@
  MaxSites = @@MAXSITES@@
INVARIANTS Exclusive Covers DefaultKept EmitInv
