-------------------------------- MODULE Seams --------------------------------
(***************************************************************************)
(* C11 at the seam between two statements.                                 *)
(*                                                                         *)
(* ti's parser and evaluators keep "registers" that survive from one       *)
(* token to the next: the last evaluated value, the last resolved method   *)
(* (its block parameters type the next block), the "parsing an             *)
(* expression" flag, the last call.  A statement may consult a register    *)
(* before it has written it itself (a block on a call that cannot be       *)
(* resolved takes its parameter types from the last resolved method; a     *)
(* line starting with `[` indexes the last evaluated value if the          *)
(* expression flag is still up).  Independence of statements (C11) holds   *)
(* iff every register a statement consults is clean when the statement     *)
(* starts - i.e. iff statement start resets it.                            *)
(*                                                                         *)
(* A program here is   prev ; [fragment ending in fragEnd] ; next          *)
(* The model runs it with and without the fragment and records what        *)
(* `next` sees in the registers it consults.  Leaky = registers that are   *)
(* NOT reset at statement start: {} is the intended analyser; the shipped  *)
(* one leaks lastValue / exprFlag into a line that starts with `[`         *)
(* (known finding Dev_BracketLineContinuesPreviousStatement), the          *)
(* operator of a statement-level `!x` into the next binary expression      *)
(* (Dev_NotCallLeaksLastCall) and the condition of a `while` modifier into *)
(* the narrowing of the next `if` (Dev_WhileModifierConditionLeaks).       *)
(***************************************************************************)
EXTENDS Integers, Sequences, FiniteSets, TLC

CONSTANTS Leaky

Registers == {"lastValue", "lastResolved", "exprFlag", "lastCall", "modifierCond"}

\* how a fragment / previous statement can end, and what it leaves in the registers
EndKinds == {"assign-lit", "assign-call", "call-noblock", "call-block-params", "times-block", "if-end", "array-lit",
             "hash-lit", "string-lit", "op-assign", "print-call", "method-chain", "failing-op-call", "not-call",
             "while-modifier", "none"}
Leaves(k) ==
    [r \in Registers |->
       CASE k = "none" -> "clean"
         [] r = "lastValue" -> k
         [] r = "lastResolved" -> IF k \in {"assign-call", "call-noblock", "call-block-params", "times-block", "op-assign",
                                            "print-call", "method-chain", "not-call"} THEN k ELSE "clean"
         \* the operator of the last call (it decides where a following binary expression is cut): restored by a
         \* deferred statement after every call - also one that ends with an error
         [] r = "lastCall" -> IF k \in {"failing-op-call", "not-call"} THEN k ELSE "clean"
         \* the narrowing a `stmt while cond` modifier set up for its condition
         [] r = "modifierCond" -> IF k = "while-modifier" THEN k ELSE "clean"
         [] OTHER -> IF k \in {"assign-lit", "assign-call", "op-assign", "while-modifier"} THEN k ELSE "clean"]

\* how the host statement behind the seam starts, and which registers it consults before writing them
NextKinds == {"probe-ident", "block-unknown-method", "block-union-receiver", "block-strategy-method", "bracket-line",
              "paren-line", "unary-minus-line", "string-line", "symbol-line", "const-line", "if-line", "def-line",
              "ternary-op-line", "arith-line"}
Consults(k) ==
    CASE k \in {"block-unknown-method", "block-union-receiver", "block-strategy-method"} -> {"lastResolved"}
      [] k \in {"bracket-line", "paren-line", "unary-minus-line"} -> {"lastValue", "exprFlag"}
      [] k \in {"ternary-op-line", "arith-line"} -> {"lastCall"}
      [] k = "if-line" -> {"modifierCond"}
      [] OTHER -> {}

VARIABLES prev, fragEnd, next, withFragment, regs, seen, pc
vars == <<prev, fragEnd, next, withFragment, regs, seen, pc>>

Clean == [r \in Registers |-> "clean"]
Reset(rg) == [r \in Registers |-> IF r \in Leaky THEN rg[r] ELSE "clean"]

Init == /\ prev \in EndKinds /\ fragEnd \in EndKinds \ {"none"} /\ next \in NextKinds
        /\ withFragment \in BOOLEAN
        /\ regs = Clean /\ seen = <<>> /\ pc = "prev"

RunPrev == /\ pc = "prev"
           /\ regs' = Leaves(prev)
           /\ pc' = IF withFragment THEN "fragment" ELSE "next"
           /\ UNCHANGED <<prev, fragEnd, next, withFragment, seen>>
RunFragment == /\ pc = "fragment"
               /\ regs' = Leaves(fragEnd)            \* (its own statement start happened inside the fragment)
               /\ pc' = "next"
               /\ UNCHANGED <<prev, fragEnd, next, withFragment, seen>>
RunNext == /\ pc = "next"
           /\ LET atStart == Reset(regs) IN
              /\ seen' = [r \in Consults(next) |-> atStart[r]]
              /\ regs' = Clean
           /\ pc' = "done"
           /\ UNCHANGED <<prev, fragEnd, next, withFragment>>
Next == RunPrev \/ RunFragment \/ RunNext
Spec == Init /\ [][Next]_vars

\* C11 at the seam: what `next` sees does not depend on what stands in front of it
SeesNothing == pc = "done" => \A r \in DOMAIN seen : seen[r] = "clean"
\* which (end, next) pairs the model predicts sensitive for a given Leaky
Sensitive(e, n) == \E r \in Consults(n) \cap Leaky : Leaves(e)[r] # "clean"
=============================================================================
