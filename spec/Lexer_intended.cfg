SPECIFICATION Spec
CONSTANTS
  Alphabet = @@ALPHABET@@
  MaxLen = @@MAXLEN@@
  EOFBound = 6
  FixEOFLoops = TRUE
  FixNul = TRUE
  FixBacktick = TRUE
  Emit = FALSE
INVARIANTS TypeOK StepsLinear TokensBounded NoSpin ConsumesAll KindsMapped
PROPERTIES CursorMonotone
