SPECIFICATION Spec
CONSTANTS
  Records <- MCRecords
  KeyFields <- @@KEY@@
  Mode = @@MODE@@
INVARIANTS Deterministic
