------------------------------- MODULE Editor -------------------------------
(***************************************************************************)
(* Output determinism (C05): ti's editor and LLM reports are printed from  *)
(* tables that are Go maps.  A printer either ranges over the map directly *)
(* (PrintFromMap: any order) or copies the entries into a slice in map     *)
(* iteration order and sorts it with a comparator (PrintSorted).  Go's     *)
(* iteration order changes from run to run; the sort is not stable.        *)
(*                                                                         *)
(* The schedule quantifier of C05 ("each process gets fresh map-iteration  *)
(* randomisation") is the nondeterministic choice of `perm` here: TLC      *)
(* explores EVERY iteration order and every resolution of comparator ties, *)
(* and checks that the printed sequence is a function of the SET of        *)
(* records.  That holds iff the comparator is a total order on the records *)
(* (no two distinct records compare equal); the comparators as shipped     *)
(* order signatures by (method, class, frame) only, and overloads of one   *)
(* configured method share all three.                                      *)
(***************************************************************************)
EXTENDS Integers, Sequences, FiniteSets, TLC

CONSTANTS Records,      \* set of records [m, c, f, d, s]: method, class, frame, detail text, static flag
          KeyFields,    \* which fields the comparator looks at: subset of {"m","c","f","d","s"}
          Mode          \* "sorted" | "map" | "set" (output compared as a set, e.g. --define)

VARIABLES perm,   \* the order in which the map hands out its entries this run
          out,    \* what is printed
          phase

vars == <<perm, out, phase>>

Perms(S) == {s \in [1..Cardinality(S) -> S] : \A i, j \in 1..Cardinality(S) : i # j => s[i] # s[j]}

Rank == [x \in {"", "a", "b", "c", "d", "e", "Builtin", "static", "inst"} |->
           CASE x = "" -> 0 [] x = "Builtin" -> 1 [] x = "a" -> 2 [] x = "b" -> 3 [] x = "c" -> 4 [] x = "d" -> 5
             [] x = "e" -> 6 [] x = "inst" -> 7 [] OTHER -> 8]

\* lexicographic comparison on the key fields, in the order m, c, f, d, s
Less(x, y) ==
    LET fs == <<"m", "c", "f", "d", "s">>
        RECURSIVE Go(_)
        Go(i) == IF i > Len(fs) THEN FALSE
                 ELSE IF fs[i] \notin KeyFields \/ x[fs[i]] = y[fs[i]] THEN Go(i + 1)
                 ELSE Rank[x[fs[i]]] < Rank[y[fs[i]]]
    IN  Go(1)
Tie(x, y) == ~Less(x, y) /\ ~Less(y, x)

\* every sequence the (unstable) sort may return for this input: a permutation that respects Less
SortedOutcomes(input) ==
    {s \in Perms(Records) : \A i, j \in 1..Len(s) : i < j => ~Less(s[j], s[i])}

Init == perm \in Perms(Records) /\ out = <<>> /\ phase = "collect"

PrintOut ==
    /\ phase = "collect"
    /\ out' \in (IF Mode = "sorted" THEN SortedOutcomes(perm) ELSE {perm})
    /\ phase' = "done"
    /\ UNCHANGED perm

Spec == Init /\ [][PrintOut]_vars

\* the canonical output: the unique sorted sequence under a TOTAL order on all fields
Canonical == CHOOSE s \in Perms(Records) :
    \A i, j \in 1..Len(s) : i < j =>
        LET fs == <<"m", "c", "f", "d", "s">>
            RECURSIVE Lt(_)
            Lt(k) == IF k > Len(fs) THEN FALSE
                     ELSE IF s[i][fs[k]] = s[j][fs[k]] THEN Lt(k + 1) ELSE Rank[s[i][fs[k]]] < Rank[s[j][fs[k]]]
        IN  Lt(1)

RangeOf(s) == {s[i] : i \in DOMAIN s}

\* C05: the printed text is a function of the set of records
Deterministic ==
    phase = "done" => IF Mode = "set" THEN RangeOf(out) = Records ELSE out = Canonical
=============================================================================
