SPECIFICATION TraceSpec
CONSTANTS
  PreloadNames <- TracePreloadNames
  Target = "t.rb"
  MaxSteps = 0
  MaxErrs = 0
  EOFBudget = @@EOFBUDGET@@
  TraceFile = "trace.ndjson"
INVARIANTS Report
CHECK_DEADLOCK FALSE
