------------------------------ MODULE MCNarrow ------------------------------
EXTENDS Narrow, Json
CONSTANTS Emit, Rich

A(k, v, c) == [k |-> k, v |-> v, c |-> c]
XAtoms == {A("nil", "x", ""), A("notnil", "x", ""), A("isa", "x", "Integer")}
          \cup (IF Rich THEN {A("isa", "x", "String")} ELSE {})
YAtoms == {A("isa", "y", "String"), A("isa", "y", "Float")}
          \cup (IF Rich THEN {A("nil", "y", ""), A("notnil", "y", "")} ELSE {})
MCConds == {<<a>> : a \in XAtoms \cup YAtoms} \cup {<<a, b>> : a \in XAtoms, b \in YAtoms}
MCInitX == {{"Integer", "NilClass"}} \cup (IF Rich THEN {{"Integer", "String", "NilClass"}} ELSE {})
MCInitY == {{"String", "Float"}} \cup (IF Rich THEN {{"String", "Float", "NilClass"}} ELSE {})

EmitInv == (Emit /\ Complete) => PrintT(ToJson(prog))
=============================================================================
