------------------------------ MODULE MCNarrow ------------------------------
EXTENDS Narrow, Json
CONSTANTS Emit, Rich,
          Objects    \* x ranges over instances of two user-defined classes (they share ti's OBJECT type tag) and nil

A(k, v, c) == [k |-> k, v |-> v, c |-> c]
XAtoms == IF Objects THEN {A("nil", "x", ""), A("notnil", "x", ""), A("isa", "x", "VfFoo"), A("isa", "x", "VfBar")}
          ELSE {A("nil", "x", ""), A("notnil", "x", ""), A("isa", "x", "Integer")}
               \cup (IF Rich THEN {A("isa", "x", "String")} ELSE {})
YAtoms == {A("isa", "y", "String"), A("isa", "y", "Float")}
          \cup (IF Rich THEN {A("nil", "y", ""), A("notnil", "y", "")} ELSE {})
\* conjunctions: one test of x with one of y, and two different tests of the same variable
SameVar == {<<a, b>> : a \in XAtoms, b \in XAtoms} \cup {<<a, b>> : a \in YAtoms, b \in YAtoms}
MCConds == {<<a>> : a \in XAtoms \cup YAtoms} \cup {<<a, b>> : a \in XAtoms, b \in YAtoms}
           \cup {c \in SameVar : c[1] # c[2]}
MCInitX == IF Objects THEN {{"VfFoo", "VfBar", "NilClass"}}
           ELSE {{"Integer", "NilClass"}} \cup (IF Rich THEN {{"Integer", "String", "NilClass"}} ELSE {})
MCInitY == {{"String", "Float"}} \cup (IF Rich THEN {{"String", "Float", "NilClass"}} ELSE {})

EmitInv == (Emit /\ Complete) => PrintT(ToJson(prog))
=============================================================================
