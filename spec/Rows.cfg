SPECIFICATION Spec
CONSTANTS
  Tokens <- MCTokens
  MaxLen = @@MAXLEN@@
  MaxUngets = @@MAXUNGETS@@
  FixBeforeString = @@FIX@@
  Emit = @@EMIT@@
INVARIANTS EmitInv @@EXTRA@@
