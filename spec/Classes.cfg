SPECIFICATION MCSpec
CONSTANTS
  ClassNames = {"K1", "K2", "K3", "Decoy"}
  ModNames = {"M1", "M9"}
  Emit = @@EMIT@@
INVARIANTS Locality TerminatesOnCycles VisibilityIsJudgedNotHidden EmitInv
