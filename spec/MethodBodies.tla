---------------------------- MODULE MethodBodies ----------------------------
(***************************************************************************)
(* Reference model of ONE user-defined method with a richer signature and  *)
(* body than Methods.tla (C15): positional, defaulted and keyword          *)
(* parameters; explicit `return`; operations on the parameter that exist   *)
(* for some classes only; call sites before and after the definition and   *)
(* inside another method.                                                  *)
(*                                                                         *)
(*   shape  "pos"      def mm(arg)                                         *)
(*          "opt"      def mm(arg, opt = <literal of class dflt>)          *)
(*          "kw"       def mm(arg, kw: <literal of class dflt>)            *)
(*   body   "param"    arg                                                 *)
(*          "second"   opt / kw            (shape # "pos")                 *)
(*          "return"   if arg == 1 ; return :sym ; end ; arg               *)
(*          "upcase"   arg.upcase          (String only)                   *)
(*          "to_s"     arg.to_s            (every class)                   *)
(*   site   [c, second, where]   mm(<c>)  or  mm(<c>, <second>) / mm(<c>, kw: <second>)   *)
(*          where in "before" | "after" | "inner" (inside a method that is called later)  *)
(*                                                                         *)
(* Types are sets of class names.                                          *)
(***************************************************************************)
EXTENDS Integers, Sequences, FiniteSets, TLC

ArgT(prog)    == {prog.sites[i].c : i \in DOMAIN prog.sites}
SecondT(prog) == IF prog.shape = "pos" THEN {}
                 ELSE {prog.dflt} \cup {prog.sites[i].second : i \in {j \in DOMAIN prog.sites : prog.sites[j].second # ""}}

\* classes for which the body's operation exists
Defines(op, c) == IF op = "upcase" THEN c = "String" ELSE TRUE

\* the operation in the body: certainly fine / certainly wrong / in between (not judged)
OpAllOk(prog)   == prog.body \in {"upcase", "to_s"} => \A c \in ArgT(prog) : Defines(prog.body, c)
OpAllFail(prog) == prog.body \in {"upcase", "to_s"} /\ \A c \in ArgT(prog) : ~Defines(prog.body, c)

\* result of a call; {} = not judged
RetT(prog) ==
    CASE prog.body = "param"  -> ArgT(prog)
      [] prog.body = "second" -> SecondT(prog)
      [] prog.body = "return" -> ArgT(prog) \cup {"Symbol"}
      [] prog.body \in {"upcase", "to_s"} -> IF OpAllOk(prog) THEN {"String"} ELSE {}
      [] OTHER -> {}

WellFormed(prog) ==
    /\ prog.body = "second" => prog.shape # "pos"
    /\ prog.shape = "pos" => (prog.dflt = "" /\ \A i \in DOMAIN prog.sites : prog.sites[i].second = "")
    /\ prog.shape # "pos" => prog.dflt # ""
=============================================================================
