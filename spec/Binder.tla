------------------------------- MODULE Binder -------------------------------
(***************************************************************************)
(* How ruby-ti judges one call against the declared signature(s) of a      *)
(* configured method.                                                      *)
(*                                                                         *)
(* Two layers:                                                             *)
(*                                                                         *)
(*  REFERENCE (what properties C07 / C08 / C14 speak about)                *)
(*    Accepts / Rejects on types, Ruby's argument binding, and the two     *)
(*    judgements  MustPass(decls, call)  - certainly accepted,             *)
(*                MustFail(decls, call)  - certainly rejected.             *)
(*    Everything in between is unspecified: either outcome conforms.       *)
(*                                                                         *)
(*  AS-IS (transcription of eval/method_evaluator/type_process.go)         *)
(*    checkAndPropagateArgs with prioritizeDefineArgNames /                *)
(*    prioritizeArgTs, asteriskDefineProcess, checkArgType,                *)
(*    T.IsMatchType, T.IsMatchUnionType and the overload fallback of       *)
(*    evaluateNoUnionInstanceMethod.  One labelled branch per code branch; *)
(*    the labels taken are returned as `path` (coverage of the binder).    *)
(*                                                                         *)
(* The model checker compares the two layers on every (declaration, call)  *)
(* of a bounded universe; the harness replays every case into the real     *)
(* binary and validates recorded `bind` events against the AS-IS layer.    *)
(***************************************************************************)
EXTENDS Integers, Sequences, FiniteSets, TLC

(* ---- types ---------------------------------------------------------------
   A type is [k, u, vs]:
     k  = "any" (Untyped) | "unknown" (an identifier ti could not resolve) | "block" | "t"
     u  = TRUE iff ti represents it as a UNION value (only meaningful for k = "t")
     vs = set of variants [tt, c]: tt = ti's type tag ("INT", "STRING", "OBJECT", "ARRAY", ...,
          "UNTYPED" for an Untyped member of a union), c = the class name
   ---------------------------------------------------------------------------*)
AnyT     == [k |-> "any", u |-> FALSE, vs |-> {}]
UnknownT == [k |-> "unknown", u |-> FALSE, vs |-> {}]
BlockT   == [k |-> "block", u |-> FALSE, vs |-> {}]
One(v)   == [k |-> "t", u |-> FALSE, vs |-> {v}]
Un(S)    == [k |-> "t", u |-> TRUE, vs |-> S]

Tags(t)     == {v.tt : v \in t.vs}
HasUntyped(t) == t.k = "any" \/ \E v \in t.vs : v.tt = "UNTYPED"
TType(t)    == IF t.k = "any" THEN "UNTYPED" ELSE IF t.k = "unknown" THEN "UNKNOWN"
               ELSE IF t.k = "block" THEN "BLOCK" ELSE IF t.u THEN "UNION"
               ELSE (CHOOSE v \in t.vs : TRUE).tt
TheVariant(t) == CHOOSE v \in t.vs : TRUE

(* ---- REFERENCE: type acceptance -------------------------------------------*)
\* every possible class of the argument is a class of the parameter
Accepts(p, a) ==
    \/ HasUntyped(p) \/ HasUntyped(a)
    \/ a.k = "block"
    \/ (a.k = "t" /\ p.k = "t" /\ \A v \in a.vs : \E w \in p.vs : w.tt = v.tt /\ w.c = v.c)
\* no possible class of the argument is a class of the parameter
Rejects(p, a) ==
    /\ ~HasUntyped(p) /\ ~HasUntyped(a)
    /\ a.k = "t" /\ p.k = "t" /\ a.vs # {}
    /\ \A v \in a.vs : ~\E w \in p.vs : w.tt = v.tt /\ w.c = v.c
\* unknown arguments are never judged
Judged(a) == a.k # "unknown"

(* ---- declarations and calls ---------------------------------------------
   parameter: [kind, key, ty]   kind in req | opt | rest | key | optkey   (key = "" unless a keyword)
   argument : [key, ty]         key = "" for a positional argument
   ---------------------------------------------------------------------------*)
IsKeyParam(p) == p.kind \in {"key", "optkey"}
HasDefault(p) == p.kind \in {"opt", "optkey"}

Positional(D) == SelectSeq(D, LAMBDA p : ~IsKeyParam(p))
KeyParams(D)  == SelectSeq(D, LAMBDA p : IsKeyParam(p))
PosArgs(A)    == SelectSeq(A, LAMBDA a : a.key = "")
KeyArgs(A)    == SelectSeq(A, LAMBDA a : a.key # "")

Count(S, P(_)) == Len(SelectSeq(S, P))
NReq(D)  == Count(D, LAMBDA p : p.kind = "req")
NOpt(D)  == Count(D, LAMBDA p : p.kind = "opt")
HasRest(D) == \E i \in 1..Len(D) : D[i].kind = "rest"

(* ---- REFERENCE: Ruby binding ---------------------------------------------
   Declarations are in Ruby's canonical order: req* opt* rest? then keywords.
   n positional arguments: the first NReq go to the required parameters, the next
   min(n - NReq, NOpt) to the optional ones, the remainder to the rest parameter.   *)
ArityOK(D, A) ==
    LET n == Len(PosArgs(A)) IN
    /\ n >= NReq(D)
    /\ (HasRest(D) \/ n <= NReq(D) + NOpt(D))
    /\ \A i \in 1..Len(D) : D[i].kind = "key" => \E j \in 1..Len(A) : A[j].key = D[i].key
    /\ \A j \in 1..Len(A) : A[j].key # "" => \E i \in 1..Len(D) : IsKeyParam(D[i]) /\ D[i].key = A[j].key
    /\ \A j, k \in 1..Len(A) : (j # k /\ A[j].key # "") => A[j].key # A[k].key

ArityWrong(D, A) ==   \* the count is certainly outside what D accepts (keyword oddities are not judged)
    LET n == Len(PosArgs(A)) IN
    \/ n < NReq(D)
    \/ (~HasRest(D) /\ KeyParams(D) = <<>> /\ KeyArgs(A) = <<>> /\ n > NReq(D) + NOpt(D))
    \/ \E i \in 1..Len(D) : D[i].kind = "key" /\ ~\E j \in 1..Len(A) : A[j].key = D[i].key

\* the parameter the j-th positional argument is bound to (index into Positional(D)), 0 if none
PosTarget(D, n, j) ==
    LET P == Positional(D)
        r == NReq(D)
        o == NOpt(D)
    IN  IF j <= r THEN j
        ELSE IF j <= r + o /\ j <= n THEN j
        ELSE IF HasRest(D) THEN r + o + 1
        ELSE 0

BoundPairs(D, A) ==   \* set of <<parameter, argument>> pairs under Ruby's rules (when ArityOK)
    LET P == Positional(D)
        PA == PosArgs(A)
        n == Len(PA)
    IN  {<<P[PosTarget(D, n, j)], PA[j]>> : j \in {x \in 1..n : PosTarget(D, n, x) # 0}}
        \cup UNION {{<<D[i], A[j]>> : j \in {x \in 1..Len(A) : IsKeyParam(D[i]) /\ A[x].key = D[i].key}} : i \in 1..Len(D)}

DeclAccepts(D, A) == ArityOK(D, A) /\ \A pr \in BoundPairs(D, A) : Accepts(pr[1].ty, pr[2].ty)
DeclRejects(D, A) ==
    \/ ArityWrong(D, A)
    \/ (ArityOK(D, A) /\ \E pr \in BoundPairs(D, A) : Judged(pr[2].ty) /\ Rejects(pr[1].ty, pr[2].ty))

\* decls: sequence of overloads (first = the primary declaration)
MustPass(decls, A) == \E i \in 1..Len(decls) : DeclAccepts(decls[i], A)
MustFail(decls, A) == \A i \in 1..Len(decls) : DeclRejects(decls[i], A)

(* ---- AS-IS: T.IsMatchType / T.IsMatchUnionType / checkArgType ---------------*)
AsIsMatchType(d, a) ==   \* d.IsMatchType(a); only reached with d, a of kind "t"
    IF d.u /\ a.u
      THEN /\ \A x \in Tags(d) \ {"UNTYPED"} : x \in Tags(a)
           /\ \A x \in Tags(a) \ {"UNTYPED"} : x \in Tags(d)
    ELSE IF ~d.u /\ ~a.u /\ TType(d) = "OBJECT" /\ TType(a) = "OBJECT"
      THEN TheVariant(d).c = TheVariant(a).c
    ELSE TType(d) = TType(a)

AsIsMatchUnion(t, target) ==   \* t.IsMatchUnionType(target); t is a union
    IF target.k = "t" /\ target.u
      THEN \/ "UNTYPED" \in Tags(target) \/ "UNTYPED" \in Tags(t)
           \/ Tags(t) = Tags(target)
      ELSE \E v \in t.vs : v.tt = "UNTYPED" \/ v.tt = TType(target)

AsIsCheckArgType(d, a) ==   \* TRUE = accepted
    IF a.k = "block" THEN TRUE
    ELSE IF d.k = "any" \/ a.k = "any" \/ a.k = "unknown" THEN TRUE
    ELSE IF d.k # "t" THEN FALSE
    ELSE IF AsIsMatchType(d, a) THEN TRUE
    ELSE IF d.u THEN AsIsMatchUnion(d, a)
    ELSE IF a.u THEN AsIsMatchUnion(a, d)
    ELSE FALSE

(* ---- AS-IS: prioritize* --------------------------------------------------*)
\* keyword parameters / arguments are moved behind the positional ones and sorted by name;
\* the model's keyword names are "k1" < "k2" < ..., KeyOrder gives their rank
CONSTANT KeyOrder   \* function from keyword name to its rank in string order

RECURSIVE SortByKey(_)
SortByKey(S) ==
    IF S = <<>> THEN <<>>
    ELSE LET m == CHOOSE i \in 1..Len(S) : \A j \in 1..Len(S) : KeyOrder[S[i].key] <= KeyOrder[S[j].key]
         IN  <<S[m]>> \o SortByKey(SubSeq(S, 1, m - 1) \o SubSeq(S, m + 1, Len(S)))

SortedDecl(D) == Positional(D) \o SortByKey(KeyParams(D))
SortedArgs(A) == PosArgs(A) \o SortByKey(KeyArgs(A))

(* ---- AS-IS: asteriskDefineProcess ---------------------------------------*)
\* returns how many arguments the rest parameter swallows (0-based ai as in the Go code)
RECURSIVE PrefixPositional(_, _)
PrefixPositional(A, from) ==   \* number of consecutive positional arguments starting at index from (1-based)
    IF from > Len(A) \/ A[from].key # "" THEN 0 ELSE 1 + PrefixPositional(A, from + 1)

MustBind(SD, di) ==   \* parameters after index di (1-based) whose name has no key suffix
    Cardinality({i \in (di + 1)..Len(SD) : ~IsKeyParam(SD[i])})

(* ---- AS-IS: checkAndPropagateArgs ------------------------------------------
   di, ai are the Go indices (0-based).  Result: [res, path].                   *)
RECURSIVE Loop(_, _, _, _, _, _, _)
Loop(SD, SA, di, ai, ast, path, anyret) ==
    IF di + 1 > Len(SD)
      THEN IF anyret THEN [res |-> "ok", path |-> path \o <<"AnyReturn">>]
           ELSE IF Len(SA) > Len(SD) /\ ~ast THEN [res |-> "too-many", path |-> path \o <<"TooMany">>]
           ELSE [res |-> "ok", path |-> path \o <<"Done">>]
    ELSE
    LET d == SD[di + 1] IN
    IF d.kind = "rest"
      THEN IF Len(SA) < ai
             THEN \* the Go loop breaks without marking the asterisk
                  IF anyret THEN [res |-> "ok", path |-> path \o <<"RestBreak", "AnyReturn">>]
                  ELSE IF Len(SA) > Len(SD) THEN [res |-> "too-many", path |-> path \o <<"RestBreak", "TooMany">>]
                  ELSE [res |-> "ok", path |-> path \o <<"RestBreak">>]
             ELSE LET np == PrefixPositional(SA, ai + 1)
                      mb == MustBind(SD, di + 1)
                  IN  IF mb >= np
                        THEN Loop(SD, SA, di + 1, ai, TRUE, path \o <<"SplatEmpty">>, anyret)
                        ELSE Loop(SD, SA, di + 1, ai + (np - mb), TRUE, path \o <<"Splat">>, anyret)
    ELSE
    LET isKey  == IsKeyParam(d)
        hasDef == HasDefault(d)
        inA    == ai + 1 <= Len(SA)
        a      == SA[ai + 1]
    IN
    IF isKey /\ ~hasDef /\ ~\E j \in 1..Len(SA) : SA[j].key = d.key
      THEN [res |-> "missing-key", path |-> path \o <<"MissingKey">>]
    ELSE IF isKey /\ inA /\ a.key = ""
      THEN [res |-> "extra-arg", path |-> path \o <<"ExtraArg">>]
    ELSE IF inA /\ a.key # "" /\ ~isKey /\ ~hasDef
      THEN [res |-> "kw-for-positional", path |-> path \o <<"KwForPositional">>]
    ELSE IF inA /\ a.key # "" /\ a.key # d.key
      THEN Loop(SD, SA, di + 1, ai, ast, path \o <<"SkipKey">>, anyret)
    ELSE IF ~inA
      THEN IF hasDef THEN Loop(SD, SA, di + 1, ai + 1, ast, path \o <<"DefaultSkip">>, anyret)
           ELSE [res |-> "too-few", path |-> path \o <<"TooFew">>]
    ELSE IF AsIsCheckArgType(d.ty, a.ty)
      THEN Loop(SD, SA, di + 1, ai + 1, ast, path \o <<IF a.key = "" THEN "TypeOK" ELSE "KeyToSlot">>, anyret)
    ELSE [res |-> "mismatch", path |-> path \o <<"Mismatch">>]

AsIsBind(D, A, anyret) == Loop(SortedDecl(D), SortedArgs(A), 0, 0, FALSE, <<>>, anyret)

\* evaluateNoUnionInstanceMethod: primary declaration first, then the overloads in order;
\* the error reported is the one of the last declaration tried
RECURSIVE TryOverloads(_, _, _, _)
TryOverloads(decls, A, i, last) ==
    IF i > Len(decls) THEN last
    ELSE LET r == AsIsBind(decls[i], A, FALSE) IN
         IF r.res = "ok" THEN r ELSE TryOverloads(decls, A, i + 1, r)

\* Dev_OverloadKeywordParamsShareSlot: parameters live in the frame table under class + method + parameter name;
\* positional parameters get generated names, keyword parameters keep their key, so every overload that declares
\* `k:` reads the slot the declaration loaded LAST wrote
LastDeclaring(decls, key) == CHOOSE i \in 1..Len(decls) :
    /\ \E j \in 1..Len(decls[i]) : decls[i][j].key = key
    /\ \A i2 \in 1..Len(decls) : (\E j \in 1..Len(decls[i2]) : decls[i2][j].key = key) => i2 <= i
Slot(decls, key) == LET d == decls[LastDeclaring(decls, key)] IN CHOOSE p \in {d[j] : j \in 1..Len(d)} : p.key = key
\* (type and default flag both live in the slot)
ShareSlots(decls) ==
    [i \in 1..Len(decls) |-> [j \in 1..Len(decls[i]) |->
        IF IsKeyParam(decls[i][j]) THEN Slot(decls, decls[i][j].key) ELSE decls[i][j]]]

AsIsCall(declsWritten, A, anyret) ==
    LET decls == ShareSlots(declsWritten)
        r == AsIsBind(decls[1], A, anyret) IN
    IF r.res = "ok" \/ Len(decls) = 1 THEN r ELSE TryOverloads(decls, A, 2, r)

=============================================================================
