SPECIFICATION MCSpec
CONSTANTS
  MethodNames <- MCNames
  Emit = @@EMIT@@
  NMethods = @@NMETHODS@@
  MaxSites = @@MAXSITES@@
INVARIANTS Grounded Monotone EmitInv
