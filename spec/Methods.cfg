SPECIFICATION MCSpec
CONSTANTS
  MethodNames <- MCNames
  Emit = @@EMIT@@
  NMethods = @@NMETHODS@@
  MaxSites = @@MAXSITES@@
  Ctxs = @@CTXS@@
INVARIANTS Grounded Monotone EmitInv
