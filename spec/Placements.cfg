SPECIFICATION Spec
INVARIANTS PathsDistinct EmitInv
