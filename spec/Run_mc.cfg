SPECIFICATION Spec
CONSTANTS
  PreloadNames <- MCPreloadNames
  Target = "t.rb"
  MaxSteps = 2
  MaxErrs = 2
  EOFBudget = 2
INVARIANTS TypeOK OnlyExit0 NoPreloadDiag PrintedNamesTarget EOFBounded
PROPERTIES Finishes
