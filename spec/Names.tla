-------------------------------- MODULE Names --------------------------------
(***************************************************************************)
(* C13 - the analysis never looks at how a user identifier is spelt, only  *)
(* at its lexical category (local, method, class / constant, instance      *)
(* variable, global).                                                      *)
(*                                                                         *)
(* A case is a binding position - a place in the grammar where an          *)
(* identifier of some category is introduced and later used - together     *)
(* with one spelling of that category.  The abstract program of a case is  *)
(* its position alone; the reference output is a function of the abstract  *)
(* program, so every spelling of one position must produce the same output *)
(* once the spelling itself is replaced by a placeholder.                  *)
(***************************************************************************)
EXTENDS Integers, Sequences, FiniteSets, TLC

Category ==
  [ \* locals
    assign |-> "local", opassign |-> "local", multiassign |-> "local", blockparam |-> "local", braceblockparam |-> "local",
    methodparam |-> "local", defaultparam |-> "local", keywordparam |-> "local", restparam |-> "local",
    keywordpair |-> "local",     \* two keyword parameters, the other one spelt `vq2`: for the spelling `vq` one name is the
                                 \* other plus a digit, and "vq2:" sorts before "vq:" although "vq" sorts before "vq2"
    patternvar |-> "local", patternarray |-> "local", patternbind |-> "local", patternalt |-> "local",
    rescuevar |-> "local", forvar |-> "local", interpolation |-> "local", condassign |-> "local",
    \* methods
    defcall |-> "method", defselfcall |-> "method", attraccessor |-> "method", attrreader |-> "method", predicate |-> "method",
    \* classes / modules / constants
    classnew |-> "class", subclass |-> "class", modulemixin |-> "class", nestedclass |-> "class", constant |-> "class",
    \* instance variables, globals
    ivar |-> "ivar", ivarattr |-> "ivar", gvar |-> "gvar" ]

Positions == DOMAIN Category

Spellings ==
  [ local  |-> {"vq", "_vq", "z", "vq_2", "renamed_local_variable_name", "_"},
    method |-> {"mq", "_mq", "w", "mq_2", "renamed_method_name"},
    class  |-> {"Qx", "Q", "Qx9", "RenamedClassName", "Q_x"},
    ivar   |-> {"@vq", "@_vq", "@z", "@renamed_instance_variable"},
    gvar   |-> {"$vq", "$_vq", "$z"} ]

VARIABLES position, spelling
vars == <<position, spelling>>
Init == position \in Positions /\ spelling \in Spellings[Category[position]]
Next == UNCHANGED vars
Spec == Init /\ [][Next]_vars

\* the abstract program: the spelling is not part of it
Abstract(p, s) == p
SpellingIrrelevant == \A s2 \in Spellings[Category[position]] : Abstract(position, s2) = Abstract(position, spelling)
\* "_" alone is the discard name: it is a local, but reading it back is not meaningful - marked so the harness only
\* uses it where the position never reads the variable
IsDiscard == spelling = "_"
=============================================================================
