SPECIFICATION Spec
CONSTANTS
  Alphabet = @@ALPHABET@@
  MaxLen = @@MAXLEN@@
  EOFBound = 6
  FixEOFLoops = @@FIXEOF@@
  FixNul = @@FIXNUL@@
  FixBacktick = @@FIXBT@@
  Emit = @@EMIT@@
INVARIANTS TypeOK StepsLinear TokensBounded EmitInv @@EXTRA@@
PROPERTIES CursorMonotone
