---------------------------- MODULE MCConfigSets ----------------------------
(***************************************************************************)
(* C19 - the universe of small configurations: a parent class P and a      *)
(* child class C (C extends P), declared in two or three files.  A file    *)
(* names one class, may carry the child's `extends`, and declares up to    *)
(* two methods out of m / k with an Integer or a String parameter.         *)
(* A class may be split over files; the extends edge may sit in any of the *)
(* child's files.                                                          *)
(*                                                                         *)
(* Reference (order free by construction): the declarations a call of      *)
(* c#name is checked against are those of the nearest class on the path    *)
(* c, parent(c) that declares `name` in ANY of its files.                  *)
(***************************************************************************)
EXTENDS Integers, Sequences, FiniteSets, TLC, Json

Names == {"m", "k"}
Sigs == {"I", "S"}
Decl == [name : Names, sig : Sigs]
MethodSets == {S \in SUBSET Decl : Cardinality(S) <= 2}
\* prop: the type of the instance property `label` this file declares for its class ("" = none)
File == [cls : {"P"}, ext : {FALSE}, methods : MethodSets, prop : {"", "I", "S"}]
        \cup [cls : {"C"}, ext : BOOLEAN, methods : MethodSets, prop : {"", "I", "S"}]

VARIABLE files
PFiles == {f \in File : f.cls = "P"}
CFiles == {f \in File : f.cls = "C"}
WellFormed(F) == /\ Cardinality(F) \in {2, 3}
                 /\ \E f \in F : f.cls = "C" /\ f.ext
                 /\ \A f, g \in F : (f # g /\ f.cls = g.cls) => f.methods \cap g.methods = {}
                 /\ \A f, g \in F : (f # g /\ f.cls = g.cls) => (f.prop = "" \/ g.prop = "")     \* a property is declared once per class
                 /\ Cardinality({f \in F : f.methods # {}}) + Cardinality({f \in F : f.prop # ""}) <= 3   \* (keeps the universe small)
Init == files \in {F \in {{p, c} \cup x : p \in PFiles, c \in CFiles, x \in {{}} \cup {{f} : f \in File}} : WellFormed(F)}
Next == UNCHANGED files
Spec == Init /\ [][Next]_files

Own(c, n) == UNION {{d.sig : d \in {x \in f.methods : x.name = n}} : f \in {g \in files : g.cls = c}}
\* signatures a call of c#n is checked against; {} = the method does not exist for c
Resolved(c, n) == IF Own(c, n) # {} THEN Own(c, n) ELSE IF c = "C" THEN Own("P", n) ELSE {}
\* the reference is a function of the SET of files: it never mentions an order
Accepts(c, n, a) == a \in Resolved(c, n)
\* the property a read of c#label sees: the class's own declaration, else the parent's
OwnProp(c) == {f.prop : f \in {g \in files : g.cls = c /\ g.prop # ""}}
ResolvedProp(c) == IF OwnProp(c) # {} THEN OwnProp(c) ELSE IF c = "C" THEN OwnProp("P") ELSE {}
SplitChild == Cardinality({f \in files : f.cls = "C"}) > 1
EmitInv == PrintT(ToJson([files |-> files, split |-> SplitChild,
                          res |-> [c \in {"P", "C"} |-> [n \in Names |-> Resolved(c, n)]],
                          prop |-> [c \in {"P", "C"} |-> ResolvedProp(c)]]))
=============================================================================
