----------------------------- MODULE MCTraceRun -----------------------------
EXTENDS TraceRun
TracePreloadNames == <<"p9.rb", "p8.rb", "p7.rb">>      \* written order of the harness: deliberately not file-name order
=============================================================================
