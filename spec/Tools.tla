-------------------------------- MODULE Tools --------------------------------
(***************************************************************************)
(* The two converters that produce .ti-config files.                       *)
(*                                                                         *)
(* rbs2json (C25): an RBS function type - required / optional / rest /     *)
(* trailing positionals, required and optional keywords - becomes a list   *)
(* of configured arguments.  As shipped the keywords are emitted while     *)
(* ranging over Go maps (any order); intended: sorted by name.  Checked:   *)
(* the emitted list has the documented shape, is a function of the input,  *)
(* and accepts exactly the positional arities the RBS type allows.         *)
(*                                                                         *)
(* c2json (C26): an MRB_ARGS(...) specification, or an mrb_get_args format *)
(* string, becomes a list of configured arguments.  As shipped the regular *)
(* expression that captures the specification stops at the first ')', so   *)
(* only the first macro of REQ|OPT|REST|POST|BLOCK survives.  Checked:     *)
(* ti accepts k positional arguments iff the C definition accepts k.       *)
(***************************************************************************)
EXTENDS Integers, Sequences, FiniteSets, TLC

CONSTANTS Kw,            \* keyword names, with KwRank giving their order
          KwRank,
          SortKeywords,  \* TRUE: keywords emitted sorted by name (intended)
          WholeSpec      \* TRUE: the whole MRB_ARGS expression is read (intended)

(* ---- configured argument lists (what both tools emit) ---------------------*)
\* an emitted argument: [kind, key]  kind in req | opt | rest | key | optkey | block
NReqPos(args) == Cardinality({i \in DOMAIN args : args[i].kind = "req"})
NOptPos(args) == Cardinality({i \in DOMAIN args : args[i].kind = "opt"})
HasRestArg(args) == \E i \in DOMAIN args : args[i].kind = "rest"
\* ti with this configuration accepts k positional arguments (required keywords supplied)
CfgAccepts(args, k) == k >= NReqPos(args) /\ (HasRestArg(args) \/ k <= NReqPos(args) + NOptPos(args))

Rep(n, x) == [i \in 1..n |-> x]
P(kind) == [kind |-> kind, key |-> ""]

(* ---- rbs2json ---------------------------------------------------------------*)
\* RBS function type: [r, o, rest, t, rk, ok]
RbsAccepts(s, k) == k >= s.r + s.t /\ (s.rest \/ k <= s.r + s.o + s.t)

Perms(S) == {q \in [1..Cardinality(S) -> S] : \A i, j \in 1..Cardinality(S) : i # j => q[i] # q[j]}
SortedSeq(S) == CHOOSE q \in Perms(S) : \A i, j \in 1..Len(q) : i < j => KwRank[q[i]] < KwRank[q[j]]
KwOrders(S) == IF SortKeywords THEN {SortedSeq(S)} ELSE Perms(S)

\* every list convertArguments may produce for s
RbsEmissions(s) ==
    {Rep(s.r, P("req")) \o Rep(s.o, P("opt")) \o (IF s.rest THEN <<P("rest")>> ELSE <<>>) \o Rep(s.t, P("req"))
       \o [i \in 1..Len(qr) |-> [kind |-> "key", key |-> qr[i]]]
       \o [i \in 1..Len(qo) |-> [kind |-> "optkey", key |-> qo[i]]]
     : qr \in KwOrders(s.rk), qo \in KwOrders(s.ok)}

RbsDeterministic(s) == Cardinality(RbsEmissions(s)) = 1

\* documented shape: required, optional (is_default), rest (is_asterisk), trailing, required keywords, optional keywords
KindRank(a, pos, restPos) ==
    CASE a.kind = "req" -> IF restPos # 0 /\ pos > restPos THEN 4 ELSE 1
      [] a.kind = "opt" -> 2 [] a.kind = "rest" -> 3 [] a.kind = "key" -> 5 [] a.kind = "optkey" -> 6 [] OTHER -> 7
RestPos(e) == IF \E i \in DOMAIN e : e[i].kind = "rest" THEN CHOOSE i \in DOMAIN e : e[i].kind = "rest" ELSE 0
RbsShapeOK(s) == \A e \in RbsEmissions(s) :
    /\ \A i, j \in DOMAIN e : i < j => KindRank(e[i], i, RestPos(e)) <= KindRank(e[j], j, RestPos(e))
    /\ {e[i].key : i \in {j \in DOMAIN e : e[j].kind = "key"}} = s.rk
    /\ {e[i].key : i \in {j \in DOMAIN e : e[j].kind = "optkey"}} = s.ok
RbsArityOK(s) == \A e \in RbsEmissions(s) : \A k \in 0..6 : RbsAccepts(s, k) <=> CfgAccepts(e, k)

(* ---- c2json --------------------------------------------------------------------*)
\* MRB_ARGS specification: [r, o, rest, p, blk]; rendered REQ(r)|OPT(o)|REST()|POST(p)|BLOCK() without the zero parts
Macros(c) == (IF c.r > 0 THEN <<"REQ">> ELSE <<>>) \o (IF c.o > 0 THEN <<"OPT">> ELSE <<>>) \o (IF c.rest THEN <<"REST">> ELSE <<>>)
             \o (IF c.p > 0 THEN <<"POST">> ELSE <<>>) \o (IF c.blk THEN <<"BLOCK">> ELSE <<>>)
\* what the tool reads of it
Seen(c) == IF WholeSpec \/ Len(Macros(c)) <= 1 THEN c
           ELSE LET m == Macros(c)[1] IN
                [r |-> IF m = "REQ" THEN c.r ELSE 0, o |-> IF m = "OPT" THEN c.o ELSE 0, rest |-> m = "REST",
                 p |-> IF m = "POST" THEN c.p ELSE 0, blk |-> m = "BLOCK"]
SpecEmission(c) == LET s == Seen(c) IN
    Rep(s.r, P("req")) \o Rep(s.o, P("opt")) \o (IF s.rest THEN <<P("rest")>> ELSE <<>>) \o Rep(s.p, P("req"))
    \o (IF s.blk THEN <<P("block")>> ELSE <<>>)
CAccepts(c, k) == k >= c.r + c.p /\ (c.rest \/ k <= c.r + c.o + c.p)
SpecArityOK(c) == \A k \in 0..6 : CAccepts(c, k) <=> CfgAccepts(SpecEmission(c), k)

\* MRB_ARGS_ANY(): the function takes whatever it is given
AnyEmission == <<P("rest")>>
AnyArityOK == \A k \in 0..6 : CfgAccepts(AnyEmission, k)

\* mrubyc style (mrbc_define_method, no specification): the body reads GET_<T>_ARG(1..n); with a guard
\* `if (argc >= m)` the arguments m..n are read only when given.   [n, m]  m = 0: no guard
GetArgEmission(g) == [i \in 1..g.n |-> P(IF g.m > 0 /\ i >= g.m THEN "opt" ELSE "req")]
GetArgAccepts(g, k) == IF g.m = 0 THEN k = g.n ELSE k >= g.m - 1 /\ k <= g.n
GetArgArityOK(g) == \A k \in 0..6 : GetArgAccepts(g, k) <=> CfgAccepts(GetArgEmission(g), k)

\* mrb_get_args format: a sequence over "i" "S" "o" (one argument each), "|" (the rest is optional), "*" (rest), "&" (block),
\* "!" and "?" (modifiers of the preceding specifier: no argument of their own)
FormatEmission(f) ==
    LET bar == IF \E i \in DOMAIN f : f[i] = "|" THEN CHOOSE i \in DOMAIN f : f[i] = "|" ELSE Len(f) + 1
        ArgAt(i) == CASE f[i] \in {"i", "S", "o"} -> <<P(IF i > bar THEN "opt" ELSE "req")>>
                      [] f[i] = "*" -> <<P("rest")>> [] f[i] = "&" -> <<P("block")>> [] OTHER -> <<>>
        RECURSIVE Go(_)
        Go(i) == IF i > Len(f) THEN <<>> ELSE ArgAt(i) \o Go(i + 1)
    IN  Go(1)
FormatAccepts(f, k) ==
    LET bar == IF \E i \in DOMAIN f : f[i] = "|" THEN CHOOSE i \in DOMAIN f : f[i] = "|" ELSE Len(f) + 1
        req == Cardinality({i \in DOMAIN f : i < bar /\ f[i] \in {"i", "S", "o"}})
        opt == Cardinality({i \in DOMAIN f : i > bar /\ f[i] \in {"i", "S", "o"}})
        rest == \E i \in DOMAIN f : f[i] = "*"
    IN  k >= req /\ (rest \/ k <= req + opt)
FormatArityOK(f) == \A k \in 0..6 : FormatAccepts(f, k) <=> CfgAccepts(FormatEmission(f), k)
=============================================================================
