-------------------------------- MODULE Rows --------------------------------
(***************************************************************************)
(* Row accounting of the parser (parser/read.go: getToken, Read, Unget),   *)
(* the mechanism behind C06 "layout changes only shift reported rows".     *)
(*                                                                         *)
(* A source is a sequence of tokens: a word, a newline, or a string        *)
(* literal spanning k extra lines (k newlines inside the quotes; literals  *)
(* with the same text are the same value of `txt`).  The parser keeps      *)
(*   Row       current physical line,                                      *)
(*   ErrorRow  the line diagnostics are attributed to,                     *)
(* and may push the last token back once (Unget) and read it again.        *)
(*                                                                         *)
(* Intended: after reading a token, ErrorRow is the physical line on which *)
(* the token starts, whatever the layout; hence inserting k newline tokens *)
(* shifts the ErrorRow of every later token by exactly k (ShiftLemma).     *)
(*                                                                         *)
(* As shipped (FixBeforeString = FALSE) Read counts the newlines of a      *)
(* string token unless its text equals the PREVIOUS string token's text    *)
(* (a heuristic against counting twice when a token is re-read after       *)
(* Unget): two equal multi-line literals in a row make every later row     *)
(* too small.  Fixed: count exactly when the lexer advanced.               *)
(***************************************************************************)
EXTENDS Integers, Sequences, FiniteSets, TLC

CONSTANTS Tokens,           \* token alphabet: [k |-> "w" | "nl" | "str", n |-> newlines inside, txt |-> identity]
          MaxLen,           \* sources are all token sequences up to this length
          MaxUngets,        \* Unget operations per behaviour
          FixBeforeString

VARIABLES src,      \* the token sequence (constant over a behaviour)
          i,        \* index of the next token the lexer will produce
          ungot,    \* parser.ungetFlg
          row, errorRow, beforeTxt,
          cur,      \* index of the token last handed out (0 = none)
          nu,       \* ungets so far
          ops       \* history: what was done, with Row / ErrorRow after it

vars == <<src, i, ungot, row, errorRow, beforeTxt, cur, nu, ops>>

\* physical line on which token j of src starts (1-based)
RECURSIVE LinesBefore(_, _)
LinesBefore(s, j) ==
    IF j <= 1 THEN 0
    ELSE LinesBefore(s, j - 1) + (IF s[j - 1].k = "nl" THEN 1 ELSE IF s[j - 1].k = "str" THEN s[j - 1].n ELSE 0)
PhysLine(s, j) == 1 + LinesBefore(s, j)

Sources == UNION {[1..n -> Tokens] : n \in 0..MaxLen}

Init == /\ src \in Sources
        /\ i = 1 /\ ungot = FALSE /\ row = 1 /\ errorRow = 0 /\ beforeTxt = "" /\ cur = 0 /\ nu = 0 /\ ops = <<>>

\* Parser.Read: getToken, then the per-kind processing
Read ==
    /\ (ungot \/ i <= Len(src))
    /\ LET advanced == ~ungot
           j   == IF ungot THEN cur ELSE i
           t   == src[j]
           \* getToken
           row1 == IF advanced /\ t.k = "nl" THEN row + 1 ELSE row
           er1  == IF advanced /\ t.k # "nl" THEN row ELSE errorRow
           \* Read's STRING case
           count == IF FixBeforeString THEN advanced ELSE beforeTxt # t.txt
           row2 == IF t.k = "str" /\ count THEN row1 + t.n ELSE row1
       IN  /\ row' = row2 /\ errorRow' = er1
           /\ beforeTxt' = IF t.k = "str" THEN t.txt ELSE beforeTxt
           /\ cur' = j /\ i' = IF advanced THEN i + 1 ELSE i
           /\ ungot' = FALSE
           /\ ops' = Append(ops, [op |-> "read", tok |-> j, row |-> row2, erow |-> er1])
    /\ UNCHANGED <<src, nu>>

Unget ==
    /\ cur # 0 /\ ~ungot /\ nu < MaxUngets
    /\ ungot' = TRUE /\ nu' = nu + 1
    /\ ops' = Append(ops, [op |-> "unget", tok |-> cur, row |-> row, erow |-> errorRow])
    /\ UNCHANGED <<src, i, row, errorRow, beforeTxt, cur>>

Next == Read \/ Unget
Spec == Init /\ [][Next]_vars

\* C06 at the token level: a diagnostic raised right after reading a non-newline token is
\* attributed to the physical line that token starts on
ErrorRowIsPhysical ==
    (cur # 0 /\ src[cur].k # "nl" /\ ~ungot /\ ops # <<>> /\ ops[Len(ops)].op = "read")
        => errorRow = PhysLine(src, cur)
\* Row itself is the physical line of the NEXT token whenever nothing is pushed back
RowIsPhysical == ~ungot => row = PhysLine(src, i)

Done == ~ungot /\ i = Len(src) + 1
=============================================================================
