------------------------------ MODULE Classes ------------------------------
(***************************************************************************)
(* Reference model of user-defined classes (C16, and the generator behind  *)
(* C20, C22, C23, C27): a class graph, Ruby's method resolution, and the   *)
(* visibility judgement.                                                   *)
(*                                                                         *)
(* A GRAPH is                                                              *)
(*   sup  : class -> its superclass or "" (user classes only)              *)
(*   inc  : class -> set of included modules                               *)
(*   ext  : class -> set of extended modules                               *)
(*   defs : set of method definitions                                      *)
(*          [owner, name, static, vis, ret, how, reopened]                 *)
(*   init : class -> number of parameters of its own `initialize`, or -1   *)
(* The identity of a class is its name (its full path once namespaces are  *)
(* added by the harness): nothing here depends on what else is configured  *)
(* or defined under another path - which is what C20 and C27 state.        *)
(*                                                                         *)
(* Resolution (Ruby): an instance method of class c is searched in c, the  *)
(* modules c includes, then the superclass the same way; a class method in *)
(* c's singleton methods, the modules c extends, then the superclass.      *)
(* The walk carries a visited set, so it ends on cyclic graphs as well.    *)
(***************************************************************************)
EXTENDS Integers, Sequences, FiniteSets, TLC

CONSTANTS ClassNames, ModNames

AllNames == ClassNames \cup ModNames

(* ---- resolution ------------------------------------------------------------*)
OwnDef(g, owner, name, static) ==
    {d \in g.defs : d.owner = owner /\ d.name = name /\ d.static = static}

\* the chain of user classes from c upwards, each at most once (visited set)
RECURSIVE Chain(_, _, _)
Chain(g, c, visited) ==
    IF c = "" \/ c \in visited THEN <<>>
    ELSE <<c>> \o Chain(g, g.sup[c], visited \cup {c})

\* first definition of an instance method `name` seen from class c
RECURSIVE FirstInst(_, _, _)
FirstInst(g, chain, name) ==
    IF chain = <<>> THEN {}
    ELSE LET c == Head(chain)
             own == OwnDef(g, c, name, FALSE)
             viaMods == UNION {OwnDef(g, m, name, FALSE) : m \in g.inc[c]}
         IN  IF own # {} THEN own
             ELSE IF viaMods # {} THEN viaMods
             ELSE FirstInst(g, Tail(chain), name)

RECURSIVE FirstStatic(_, _, _)
FirstStatic(g, chain, name) ==
    IF chain = <<>> THEN {}
    ELSE LET c == Head(chain)
             own == OwnDef(g, c, name, TRUE)
             viaMods == UNION {OwnDef(g, m, name, FALSE) : m \in g.ext[c]}   \* extend: the module's instance methods
         IN  IF own # {} THEN own
             ELSE IF viaMods # {} THEN viaMods
             ELSE FirstStatic(g, Tail(chain), name)

ResolveInst(g, c, name)   == FirstInst(g, Chain(g, c, {}), name)
ResolveStatic(g, c, name) == FirstStatic(g, Chain(g, c, {}), name)

\* arity of `new`: the nearest initialize on the chain; -1 = none (accepts nothing but 0 arguments is fine)
RECURSIVE InitArity(_, _)
InitArity(g, chain) ==
    IF chain = <<>> THEN -1
    ELSE IF g.init[Head(chain)] >= 0 THEN g.init[Head(chain)] ELSE InitArity(g, Tail(chain))

(* ---- judgement of a call made at top level (outside every class) ------------
   outcome: [k |-> "ok", ret |-> class]   resolves to a public method returning `ret`
            [k |-> "undefined"]           no such method on the chain
            [k |-> "private"]             resolves to a private method (explicit receiver)
            [k |-> "protected"]           resolves to a protected method, caller outside the hierarchy
            [k |-> "ambiguous"]           more than one candidate at the same level (not judged)      *)
\* (attr: the method is an attribute reader - attr_accessor / attr_reader - whose type is that of the instance variable)
Judge(cands) ==
    IF cands = {} THEN [k |-> "undefined", ret |-> "", attr |-> FALSE]
    ELSE IF Cardinality(cands) > 1 THEN [k |-> "ambiguous", ret |-> "", attr |-> FALSE]
    ELSE LET d == CHOOSE x \in cands : TRUE IN
         IF d.vis = "private" THEN [k |-> "private", ret |-> "", attr |-> FALSE]
         ELSE IF d.vis = "protected" THEN [k |-> "protected", ret |-> "", attr |-> FALSE]
         ELSE [k |-> "ok", ret |-> d.ret, attr |-> d.how = "attr"]

InstCall(g, c, name)   == Judge(ResolveInst(g, c, name))
StaticCall(g, c, name) == Judge(ResolveStatic(g, c, name))

(* ---- properties of the model --------------------------------------------------*)
\* resolution depends only on the part of the graph reachable from c: adding a class or module
\* that c's chain never mentions (any name, any methods) cannot change it  (C20 / C27)
Reachable(g, c) == {Chain(g, c, {})[i] : i \in DOMAIN Chain(g, c, {})}
                   \cup UNION {g.inc[x] \cup g.ext[x] : x \in {Chain(g, c, {})[i] : i \in DOMAIN Chain(g, c, {})}}
=============================================================================
