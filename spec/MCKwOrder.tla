------------------------------ MODULE MCKwOrder ------------------------------
(***************************************************************************)
(* C14 - the order of the keyword arguments of a call is irrelevant.       *)
(*                                                                         *)
(* Universe: declarations with 0-2 positional parameters and 2..N keyword  *)
(* parameters (required or defaulted) against calls with 0-2 positional    *)
(* and 2..N keyword arguments drawn from the declared names plus one       *)
(* undeclared name, at most one of them of another type.  A state is a     *)
(* (declaration, call, permutation of the call's keyword arguments).       *)
(*                                                                         *)
(* Checked by TLC on every state:                                          *)
(*   RefOrderFree   - the reference judgement (Binder!MustPass / MustFail) *)
(*                    of the permuted call equals that of the written one  *)
(*   AsIsOrderFree  - so does the result of the transcribed as-is binder   *)
(*                    (prioritizeArgTs sorts keyword arguments by name:    *)
(*                    that is what makes the order irrelevant in ti)       *)
(* The harness replays every (declaration, call) with every permutation    *)
(* into the real binary, once against a configured method and once against *)
(* a user-defined method, and compares the outputs.                        *)
(***************************************************************************)
EXTENDS Binder, Json

CONSTANTS NKeys,      \* how many of the keyword names are in play (2..4)
          AnyFirst,   \* also declarations whose first keyword parameter is Untyped
          Emit

cInt == [tt |-> "INT", c |-> "Integer"]
cStr == [tt |-> "STRING", c |-> "String"]

\* names chosen so that Go's comparison of "name:" strings differs from the comparison of the bare
\* names for a prefix pair:  "k1:" < "k:"  although  "k" < "k1"
AllKeys  == <<"k1", "k", "port", "zeta">>
Unknown  == "nope"
Keys     == {AllKeys[i] : i \in 1..NKeys}
MCKeyOrder == [x \in {"", "k1", "k", "nope", "port", "zeta"} |->
                 CASE x = "" -> 0 [] x = "k1" -> 1 [] x = "k" -> 2 [] x = "nope" -> 3 [] x = "port" -> 4 [] OTHER -> 5]

PosDecls == {<<>>, <<[kind |-> "req", key |-> "", ty |-> One(cInt)]>>,
             <<[kind |-> "req", key |-> "", ty |-> One(cInt)], [kind |-> "opt", key |-> "", ty |-> One(cInt)]>>}

\* a keyword part: every name absent / required / defaulted; the first declared one may be Untyped
KwChoice == [Keys -> {"none", "key", "optkey"}]
RECURSIVE KwSeq(_, _, _)
KwSeq(f, i, anyFirst) ==
    IF i > NKeys THEN <<>>
    ELSE IF f[AllKeys[i]] = "none" THEN KwSeq(f, i + 1, anyFirst)
    ELSE <<[kind |-> f[AllKeys[i]], key |-> AllKeys[i], ty |-> IF anyFirst THEN AnyT ELSE One(cInt)]>>
         \o KwSeq(f, i + 1, FALSE)
Decls == {p \o KwSeq(f, 1, a) : p \in PosDecls, a \in (IF AnyFirst THEN BOOLEAN ELSE {FALSE}),
                                f \in {g \in KwChoice : Cardinality({k \in Keys : g[k] # "none"}) >= 2}}

\* calls: 0-2 positional Integer arguments, then keyword arguments (names in AllKeys order, Unknown last),
\* all Integer or exactly one String
CallNames == {S \in SUBSET (Keys \cup {Unknown}) : Cardinality(S) >= 2}
RECURSIVE NameSeq(_, _)
NameSeq(S, i) ==
    IF i > NKeys THEN (IF Unknown \in S THEN <<Unknown>> ELSE <<>>)
    ELSE (IF AllKeys[i] \in S THEN <<AllKeys[i]>> ELSE <<>>) \o NameSeq(S, i + 1)
KwArgs(S, odd) == [i \in 1..Cardinality(S) |-> [key |-> NameSeq(S, 1)[i], ty |-> IF i = odd THEN One(cStr) ELSE One(cInt)]]
PosPart(n) == [i \in 1..n |-> [key |-> "", ty |-> One(cInt)]]
Calls == {PosPart(n) \o KwArgs(S, odd) : n \in 0..2, S \in CallNames, odd \in 0..(NKeys + 1)}

Perms(n) == {s \in [1..n -> 1..n] : \A i, j \in 1..n : i # j => s[i] # s[j]}

VARIABLES decls, call, perm
mcvars == <<decls, call, perm>>

MCInit ==
    /\ decls \in {<<d>> : d \in Decls}
    /\ call \in Calls
    /\ perm \in Perms(Len(KeyArgs(call)))
MCNext == UNCHANGED mcvars
MCSpec == MCInit /\ [][MCNext]_mcvars

Permuted == PosArgs(call) \o [i \in 1..Len(KeyArgs(call)) |-> KeyArgs(call)[perm[i]]]
Identity == \A i \in DOMAIN perm : perm[i] = i

RefOrderFree  == /\ MustPass(decls, Permuted) = MustPass(decls, call)
                 /\ MustFail(decls, Permuted) = MustFail(decls, call)
AsIsOrderFree == AsIsCall(decls, Permuted, FALSE).res = AsIsCall(decls, call, FALSE).res

Case == [d |-> decls, c |-> call, asis |-> AsIsCall(decls, call, FALSE).res,
         mp |-> MustPass(decls, call), mf |-> MustFail(decls, call)]
EmitInv == (Emit /\ Identity) => PrintT(ToJson(Case))
=============================================================================
