---------------------------- MODULE MCPlacements ----------------------------
(***************************************************************************)
(* Where the classes and the module of a Classes.tla graph are written:    *)
(* at the top level or inside one of two namespaces.  The identity of an   *)
(* entity is its full path; Classes.tla's resolution only follows the      *)
(* graph's edges, so it is the same under every placement (C27: same-named *)
(* or differently placed classes do not interfere; C16 / C15 / C22 / C23 / *)
(* C24 must hold for every placement as well).                             *)
(***************************************************************************)
EXTENDS Integers, Sequences, FiniteSets, TLC, Json

Entities == {"K1", "K2", "K3", "M1"}
Namespaces == {"", "Na", "Nb"}

VARIABLE place
Init == place \in [Entities -> Namespaces]
Next == UNCHANGED place
Spec == Init /\ [][Next]_place

Path(e) == <<place[e], e>>
\* distinct entities have distinct paths whatever the placement (the short names are distinct)
PathsDistinct == \A a, b \in Entities : a # b => Path(a) # Path(b)
EmitInv == PrintT(ToJson(place))
=============================================================================
