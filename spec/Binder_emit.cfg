SPECIFICATION MCSpec
CONSTANTS
  KeyOrder <- MCKeyOrder
  MaxParams = @@MAXPARAMS@@
  MaxArgs = @@MAXARGS@@
  Rich = @@RICH@@
  Overloads = @@OVERLOADS@@
  Emit = @@EMIT@@
INVARIANTS Consistent KwOrderIrrelevant EmitInv @@EXTRA@@
