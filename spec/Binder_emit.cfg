SPECIFICATION MCSpec
CONSTANTS
  KeyOrder <- MCKeyOrder
  MaxParams = @@MAXPARAMS@@
  MaxArgs = @@MAXARGS@@
  Rich = @@RICH@@
  Overloads = @@OVERLOADS@@
  Emit = @@EMIT@@
  AnyRet = @@ANYRET@@
INVARIANTS Consistent KwOrderIrrelevant EmitInv @@EXTRA@@
