------------------------------- MODULE MCCore -------------------------------
(* Bounded instance of Core for model checking and behaviour emission. *)
EXTENDS Core, Json

CONSTANTS Emit, Rich

MCVars == {"a", "b"}
MCScalars == IF Rich THEN {"Integer", "String", "Float", "Symbol"} ELSE {"Integer", "String", "Float"}
MCArrLits == {<<"Integer">>, <<"Integer", "String">>} \cup (IF Rich THEN {<<"String", "Symbol">>, <<>>} ELSE {})
MCHashLits == {<<[k |-> "a", c |-> "Integer"], [k |-> "b", c |-> "String"]>>,
               <<[k |-> "a", c |-> "NilClass"], [k |-> "b", c |-> "Integer"]>>}      \* a key that stores nil is not a missing key
              \cup (IF Rich THEN {<<[k |-> "a", c |-> "Float"]>>} ELSE {})

M(recv, name, ret, arg) == [recv |-> recv, name |-> name, ret |-> ret, arg |-> arg]
R(k) == [k |-> k, t |-> Untyped]
Is(t) == [k |-> "is", t |-> t]
ForAll(recv) == {
    M(recv, "vf_int", Is(ClsT({"Integer"})), FALSE),
    M(recv, "vf_u", Is(ClsT({"Integer", "String"})), FALSE),
    M(recv, "vf_sarr", Is(T({Arr({"String"})})), FALSE),
    M(recv, "vf_opt", Is(ClsT({"String", "NilClass"})), FALSE),
    M(recv, "vf_self", R("self"), FALSE),
    M(recv, "vf_arg", R("arg"), TRUE),
    M(recv, "vf_cond", R("cond"), TRUE) }
MCMethods ==
    ForAll("Array") \cup ForAll("Hash") \cup ForAll("String") \cup ForAll("Integer")
    \cup { M("Array", "vf_unify_nil", R("unify_nil"), FALSE), M("Array", "vf_self_int", R("self_int"), FALSE),
           M("Array", "vf_unify_str", R("unify_str"), FALSE),
           M("Hash", "vf_unify_nil", R("unify_nil"), FALSE), M("Hash", "vf_unify_str", R("unify_str"), FALSE) }
    \cup { M("Array", "vf_unify", R("unify"), FALSE), M("Array", "vf_ounify", R("ounify"), FALSE),
           M("Array", "vf_selfarr", R("selfarr"), FALSE),
           M("Hash", "vf_unify", R("unify"), FALSE), M("Hash", "vf_kva", R("kva"), FALSE) }

Terminal == Len(prog) = MaxStmts
EmitInv == (Emit /\ Terminal) => PrintT(ToJson(prog))
=============================================================================
