------------------------------- MODULE MCNames -------------------------------
EXTENDS Names, Json
EmitInv == PrintT(ToJson([position |-> position, category |-> Category[position], spelling |-> spelling, discard |-> IsDiscard]))
=============================================================================
