----------------------------- MODULE TraceBinder -----------------------------
(***************************************************************************)
(* Trace validation of the binder: every `bind` event recorded from the    *)
(* real code (one per run of checkAndPropagateArgs against a configured    *)
(* method: the declaration as ti resolved it, the argument types as ti     *)
(* evaluated them, and the error it returned) must be explained by the     *)
(* AS-IS layer of Binder, and must not contradict the REFERENCE layer      *)
(* beyond the named deviations.  Total Next: every event is examined.      *)
(***************************************************************************)
EXTENDS Binder, Json

CONSTANT TraceFile
Trace == ndJsonDeserialize(TraceFile)

TBKeys == {"k01","k02","k03","k04","k05","k06","k07","k08","k09","k10","k11","k12","k13","k14","k15","k16"}
TBKeyOrder == [k \in TBKeys \cup {""} |->
    CASE k = "" -> 0 [] k = "k01" -> 1 [] k = "k02" -> 2 [] k = "k03" -> 3 [] k = "k04" -> 4 [] k = "k05" -> 5
      [] k = "k06" -> 6 [] k = "k07" -> 7 [] k = "k08" -> 8 [] k = "k09" -> 9 [] k = "k10" -> 10 [] k = "k11" -> 11
      [] k = "k12" -> 12 [] k = "k13" -> 13 [] k = "k14" -> 14 [] k = "k15" -> 15 [] OTHER -> 16]

VARIABLES l, bad, agree, mfmiss, mpalarm
tbvars == <<l, bad, agree, mfmiss, mpalarm>>

SetOf(s) == {s[i] : i \in DOMAIN s}
Ty(t) == [k |-> t.k, u |-> t.u, vs |-> SetOf(t.vs)]
Decl(e) == [i \in DOMAIN e.decl |-> [kind |-> e.decl[i].kind, key |-> e.decl[i].key, ty |-> Ty(e.decl[i].ty)]]
Call(e) == [i \in DOMAIN e.args |-> [key |-> e.args[i].key, ty |-> Ty(e.args[i].ty)]]

TBInit == l = 1 /\ bad = <<>> /\ agree = 0 /\ mfmiss = <<>> /\ mpalarm = <<>>

TBNext ==
    /\ l <= Len(Trace)
    /\ LET e == Trace[l]
           D == Decl(e)
           A == Call(e)
           r == AsIsBind(D, A, e.anyret)
           same == r.res = e.res
       IN  /\ IF same THEN agree' = agree + 1 /\ UNCHANGED bad
                      ELSE bad' = Append(bad, <<e.id, r.res, e.res>>) /\ UNCHANGED agree
           \* reference layer, single declaration view (overloads are judged by the caller)
           /\ mfmiss' = IF e.single /\ e.res = "ok" /\ DeclRejects(D, A) THEN Append(mfmiss, e.id) ELSE mfmiss
           /\ mpalarm' = IF e.single /\ e.res # "ok" /\ DeclAccepts(D, A) THEN Append(mpalarm, e.id) ELSE mpalarm
    /\ l' = l + 1

TBSpec == TBInit /\ [][TBNext]_tbvars

Report == (l = Len(Trace) + 1) =>
    PrintT(ToJson([bad |-> bad, agree |-> agree, events |-> Len(Trace), mfmiss |-> mfmiss, mpalarm |-> mpalarm]))
=============================================================================
