------------------------------ MODULE MCBinder ------------------------------
(***************************************************************************)
(* Bounded universe for Binder: every declaration of <= MaxParams          *)
(* parameters (optionally with one overload) against every call of         *)
(* <= MaxArgs arguments.  Each initial state is one case; TLC evaluates    *)
(* the comparison invariants on it and prints it for the replay harness.   *)
(***************************************************************************)
EXTENDS Binder, Json

CONSTANTS MaxParams, MaxArgs, Rich, Overloads, Emit,
          AnyRet    \* the declarations' return type is Untyped (the as-is binder then skips its too-many test)

cInt == [tt |-> "INT", c |-> "Integer"]
cStr == [tt |-> "STRING", c |-> "String"]
cFoo == [tt |-> "OBJECT", c |-> "Foo"]
cBar == [tt |-> "OBJECT", c |-> "Bar"]

cUnt == [tt |-> "UNTYPED", c |-> "untyped"]
\* (a union with an Untyped member accepts every argument, like Untyped alone)
ParamTys == {One(cInt), One(cStr), Un({cInt, cStr}), AnyT, Un({cInt, cUnt})}
            \cup (IF Rich THEN {One(cFoo), Un({cInt, cFoo}), Un({cInt, cStr, cFoo})} ELSE {})
ArgTys   == {One(cInt), One(cStr), Un({cInt, cStr}), One(cFoo)}
            \cup (IF Rich THEN {One(cBar), Un({cInt, cBar}), Un({cStr, cFoo})} ELSE {})

\* two keyword names of which one is the other plus a digit: Go compares the names WITH their ":" suffix,
\* and "k1:" < "k:" although "k" < "k1" - an ordering both sides of the binder must agree on
Keys == {"k1", "k"}
MCKeyOrder == [x \in Keys \cup {""} |-> IF x = "k1" THEN 1 ELSE IF x = "k" THEN 2 ELSE 0]

Params == [kind : {"req", "opt", "rest"}, key : {""}, ty : ParamTys]
          \cup [kind : {"key", "optkey"}, key : Keys, ty : ParamTys]
Rank(p) == CASE p.kind = "req" -> 1 [] p.kind = "opt" -> 2 [] p.kind = "rest" -> 3 [] OTHER -> 4

Canonical(D) ==
    /\ \A i \in 1..(Len(D) - 1) : Rank(D[i]) <= Rank(D[i + 1])
    /\ Cardinality({i \in 1..Len(D) : D[i].kind = "rest"}) <= 1
    /\ \A i, j \in 1..Len(D) : (i < j /\ IsKeyParam(D[i]) /\ IsKeyParam(D[j])) => MCKeyOrder[D[i].key] < MCKeyOrder[D[j].key]

Decls(n) == {D \in UNION {[1..k -> Params] : k \in 0..n} : Canonical(D)}

Args == [key : {""}, ty : ArgTys] \cup [key : Keys, ty : ArgTys]
WellFormedCall(A) ==
    /\ \A i \in 1..(Len(A) - 1) : (A[i].key # "") => (A[i + 1].key # "")       \* keywords after positionals
    /\ \A i, j \in 1..Len(A) : (i # j /\ A[i].key # "") => A[i].key # A[j].key
Calls(n) == {A \in UNION {[1..k -> Args] : k \in 0..n} : WellFormedCall(A)}

VARIABLES decls, call
mcvars == <<decls, call>>

MCInit ==
    /\ decls \in IF Overloads
                   THEN {<<d1, d2>> : d1 \in Decls(MaxParams), d2 \in Decls(MaxParams)}
                   ELSE {<<d>> : d \in Decls(MaxParams)}
    /\ call \in Calls(MaxArgs)

MCNext == UNCHANGED mcvars
MCSpec == MCInit /\ [][MCNext]_mcvars

AsIs == AsIsCall(decls, call, AnyRet)

\* ---- what TLC checks on the model ------------------------------------------
\* the two judgements never contradict each other
Consistent == ~(MustPass(decls, call) /\ MustFail(decls, call))
\* C07 on the as-is binder: a certain failure is reported.  C08: a certain acceptance is not.
\* (checked in the *_expect configs to list the deviations; the plain config only emits)
Sound    == MustFail(decls, call) => AsIs.res # "ok"
Complete == MustPass(decls, call) => AsIs.res = "ok"
\* C14 on the as-is binder: reordering the keyword arguments changes nothing
Reversed(A) == PosArgs(A) \o [i \in 1..Len(KeyArgs(A)) |-> KeyArgs(A)[Len(KeyArgs(A)) + 1 - i]]
KwOrderIrrelevant == AsIsCall(decls, Reversed(call), AnyRet).res = AsIs.res

Case == [d |-> decls, c |-> call, anyret |-> AnyRet, asis |-> AsIs.res, path |-> AsIs.path,
         mp |-> MustPass(decls, call), mf |-> MustFail(decls, call)]
EmitInv == Emit => PrintT(ToJson(Case))
=============================================================================
