SPECIFICATION Spec
INVARIANTS SameDenotation EmitInv
