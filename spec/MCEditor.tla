------------------------------ MODULE MCEditor ------------------------------
EXTENDS Editor
R(m, c, f, d, s) == [m |-> m, c |-> c, f |-> f, d |-> d, s |-> s]
\* two overloads of one configured method (same method, class, frame), a static namesake, another method
MCRecords == {R("a", "c", "Builtin", "d", "inst"), R("a", "c", "Builtin", "e", "inst"),
              R("a", "c", "Builtin", "d", "static"), R("b", "c", "Builtin", "d", "inst")}
AsIsKey == {"m", "c", "f"}
FixedKey == {"m", "c", "f", "d", "s"}
=============================================================================
