------------------------------- MODULE Blocks -------------------------------
(***************************************************************************)
(* Reference model of block parameters and block-local scope (C17), as a   *)
(* state machine that writes a program line by line.                       *)
(*                                                                         *)
(* env maps a variable to its type (a set of class names; {"?"} = untyped, *)
(* {} = not defined).  Entering a block of a configured iterator method    *)
(* binds the i-th block variable to the i-th declared block parameter type *)
(* resolved against the receiver, NilClass for surplus variables; a block  *)
(* variable shadows an outer variable of the same name.  Leaving the block *)
(* gives every shadowed outer variable its previous type back and removes  *)
(* every variable first assigned inside.                                   *)
(***************************************************************************)
EXTENDS Integers, Sequences, FiniteSets, TLC

CONSTANTS
    Iters,        \* [recv, meth, params]: recv = variable holding the receiver, params = <<spec,...>>
    Names,        \* names block variables are drawn from
    MaxVars,      \* block variables per block: 0..MaxVars
    MaxDepth,
    MaxBlocks

VARIABLES env, stack, prog, nblocks
vars == <<env, stack, prog, nblocks>>

Outer == {"a", "h", "r", "s", "n", "e"}      \* a: array, h: hash, r: range, s: string, n: integer, e: float
AllVars == Outer \cup Names \cup {"w"}

ElemOf == [v \in Outer |->
    CASE v = "a" -> {"Integer", "String"}       \* a = [1, "s"]
      [] v = "h" -> {"Integer", "String"}       \* h = {a: 1, b: "s"}: the values
      [] v = "r" -> {"Integer"}                 \* r = (1..3)
      [] OTHER   -> {"?"}]

Init0 == [v \in AllVars |->
    CASE v = "a" -> {"Array"} [] v = "h" -> {"Hash"} [] v = "r" -> {"Range"} [] v = "s" -> {"String"}
      [] v = "n" -> {"Integer"} [] v = "e" -> {"Float"} [] OTHER -> {}]

\* declared block parameter specification resolved against the receiver
Resolve(spec, recv) ==
    CASE spec = "Unify"   -> ElemOf[recv]
      [] spec = "Flatten" -> ElemOf[recv]        \* one block variable over scalar elements
      [] spec = "Int"     -> {"Integer"}
      [] spec = "String"  -> {"String"}
      [] spec = "Untyped" -> {"?"}

Line(l, e) == prog' = Append(prog, [line |-> l, env |-> e])
Top == stack[Len(stack)]
Pop == SubSeq(stack, 1, Len(stack) - 1)

Injective(s) == \A i, j \in 1..Len(s) : i # j => s[i] # s[j]

BlockEnter(it, bvars, style) ==
    /\ Len(stack) < MaxDepth /\ nblocks < MaxBlocks
    /\ Injective(bvars)
    /\ env[it.recv] # {} /\ (\A i \in 1..Len(stack) : it.recv \notin {stack[i].bvars[j] : j \in 1..Len(stack[i].bvars)})
    /\ (it.params[1] = "Flatten" => Len(bvars) <= 1)          \* destructuring of scalar elements is not specified
    /\ LET bound == [v \in AllVars |->
                       IF \E i \in 1..Len(bvars) : bvars[i] = v
                         THEN LET i == CHOOSE j \in 1..Len(bvars) : bvars[j] = v IN
                              IF i <= Len(it.params) THEN Resolve(it.params[i], it.recv) ELSE {"NilClass"}
                         ELSE env[v]]
       IN  /\ env' = bound
           /\ stack' = Append(stack, [saved |-> env, bvars |-> bvars, locals |-> {}])
           /\ Line([op |-> "block", recv |-> it.recv, meth |-> it.meth, bvars |-> bvars, style |-> style], bound)
    /\ nblocks' = nblocks + 1

\* a variable first assigned inside the block
Local ==
    /\ stack # <<>> /\ env["w"] = {}
    /\ env' = [env EXCEPT !["w"] = {"Integer"}]
    /\ stack' = Append(Pop, [Top EXCEPT !.locals = @ \cup {"w"}])
    /\ Line([op |-> "local"], env')
    /\ UNCHANGED nblocks

BlockExit ==
    /\ stack # <<>>
    /\ env' = Top.saved
    /\ stack' = Pop
    /\ Line([op |-> "end"], Top.saved)
    /\ UNCHANGED nblocks

BVarSeqs == UNION {[1..k -> Names] : k \in 0..MaxVars}

Next ==
    \/ \E it \in Iters, bv \in BVarSeqs, st \in {"do", "brace"} : BlockEnter(it, bv, st)
    \/ Local \/ BlockExit

Init == env = Init0 /\ stack = <<>> /\ prog = <<>> /\ nblocks = 0
Spec == Init /\ [][Next]_vars

\* leaving a block restores exactly the environment of its entry: shadowed variables get their
\* type back, block variables and block locals that did not exist before are gone
ScopeRestored == [][(Len(stack') < Len(stack)) => env' = stack[Len(stack)].saved]_vars
\* nothing defined outside is lost inside a block except by shadowing
OnlyShadowing == \A i \in 1..Len(stack) : \A v \in AllVars :
    (stack[i].saved[v] # {} /\ env[v] # stack[i].saved[v]) =>
        \E j \in i..Len(stack) : \E k \in 1..Len(stack[j].bvars) : stack[j].bvars[k] = v
Complete == stack = <<>> /\ nblocks > 0
=============================================================================
