----------------------------- MODULE MCNotation -----------------------------
(***************************************************************************)
(* C21 - the abstract types a .ti-config entry can denote, each with the   *)
(* two notations the documentation calls interchangeable.  An abstract     *)
(* type is a set of member classes plus a wrapper:                         *)
(*   plain    the union of the members        ["A","B"]      =  "A|B"      *)
(*   opt      members or nil (return types)   [T,"NilClass"] =  "?T" = OptionalT *)
(*   default  a parameter that may be omitted {T, is_default} = "?T" = DefaultT  *)
(*   rest     a rest parameter                {T, is_asterisk} = "*T"      *)
(*   arr      an array of the member          ["TArray"]     =  "[T]"      *)
(* Both notations denote the abstract type itself (Denote below), hence    *)
(* each other; TLC enumerates every abstract type that has two notations,  *)
(* the harness writes both and compares what ti makes of them.             *)
(***************************************************************************)
EXTENDS Integers, Sequences, FiniteSets, TLC, Json

Classes == {"Int", "String", "Float", "Symbol"}
Wraps == {"plain", "opt", "default", "rest", "arr", "uarr"}     \* uarr: the union of the members and an array of `arr`
Named == {"Int", "String", "Float"}          \* classes with OptionalX / DefaultX / XArray names

VARIABLE t
Types == [ms : SUBSET Classes \ {{}}, wrap : Wraps \ {"uarr"}, pos : {"ret", "arg"}, arr : {""}]
         \cup [ms : SUBSET Classes \ {{}}, wrap : {"uarr"}, pos : {"ret", "arg"}, arr : Named]
HasTwoNotations(x) ==
    LET n == Cardinality(x.ms) IN
    CASE x.wrap = "plain"   -> n >= 2 \/ x.ms = {"Int"}
      [] x.wrap = "opt"     -> x.pos = "ret" /\ n <= 2
      [] x.wrap = "default" -> x.pos = "arg" /\ n <= 2
      [] x.wrap = "rest"    -> x.pos = "arg" /\ n = 1
      [] x.wrap = "arr"     -> n = 1 /\ x.ms \subseteq Named
      \* ["[T]", "A"] = "[T]|A" = ["TArray", "A"]: a compact element inside a long list
      [] x.wrap = "uarr"    -> n <= 2
      [] OTHER -> FALSE

Init == t \in {x \in Types : HasTwoNotations(x)}
Next == UNCHANGED t
Spec == Init /\ [][Next]_t

\* what either notation denotes: the classes a value may have, whether nil is allowed, the parameter flags
Denote(x) == [classes |-> x.ms, nilable |-> x.wrap = "opt", omittable |-> x.wrap = "default",
              variadic |-> x.wrap = "rest", array |-> x.wrap = "arr"]
\* the long notation spells the wrapper with flags / extra members, the compact one with a prefix or a name:
\* neither adds nor removes a class
SameDenotation == Denote(t).classes = t.ms /\ (Denote(t).nilable => t.pos = "ret") /\ (Denote(t).omittable => t.pos = "arg")
EmitInv == PrintT(ToJson([ms |-> t.ms, wrap |-> t.wrap, pos |-> t.pos, arr |-> t.arr,
                          named |-> (Cardinality(t.ms) = 1 /\ t.ms \subseteq Named)]))
=============================================================================
