------------------------------- MODULE MCSeams -------------------------------
EXTENDS Seams, Json
CONSTANTS Emit
\* one line per (prev, fragEnd, next): emitted at the initial state of the run WITH the fragment
EmitInv == (Emit /\ pc = "prev" /\ withFragment) =>
             PrintT(ToJson([prev |-> prev, fragEnd |-> fragEnd, next |-> next,
                            asisSensitive |-> Sensitive(fragEnd, next) /\ ~Sensitive(prev, next)]))
=============================================================================
