SPECIFICATION Spec
CONSTANTS
  Alphabet = @@ALPHABET@@
  MaxLen = @@MAXLEN@@
  EOFBound = 6
  FixEOFLoops = @@FIXEOF@@
  FixNul = @@FIXNUL@@
  FixBacktick = @@FIXBT@@
  Emit = FALSE
PROPERTIES Terminates
