SPECIFICATION Spec
INVARIANTS Consistent SafeNavOnlySkipsNil EmitInv
