------------------------------ MODULE MCBlocks ------------------------------
EXTENDS Blocks, Json
CONSTANT Emit
I(recv, meth, params) == [recv |-> recv, meth |-> meth, params |-> params]
MCIters == { I("a", "each", <<"Flatten">>), I("a", "each_with_index", <<"Unify", "Int">>), I("a", "each_index", <<"Int">>),
             I("a", "reject", <<"Unify">>), I("h", "each", <<"Untyped", "Unify">>), I("r", "each", <<"Unify">>),
             I("s", "each_char", <<"String">>), I("s", "each_byte", <<"Int">>), I("n", "times", <<"Int">>) }
MCNames == {"e", "u", "q"}   \* not "p": Kernel#p
EmitInv == (Emit /\ Complete) => PrintT(ToJson(prog))
=============================================================================
