//go:build verif

// rowdrive replays behaviours of spec/Rows.tla into the real ti/parser:
// stdin : {"src":[{"k","n","txt"}..], "ops":[{"op":"read|unget","tok":j,"row":r,"erow":e}..]}
// stdout: one JSON line per behaviour whose Row / ErrorRow differs from the prediction or from
//         the physical line of the token (the property), then {"summary":...}.
package main

import (
	"bufio"
	"encoding/json"
	"fmt"
	"os"
	"strings"

	"ti/lexer"
	"ti/lexer/reader"
	"ti/parser"
)

type tok struct {
	K   string `json:"k"`
	N   int    `json:"n"`
	Txt string `json:"txt"`
}
type op struct {
	Op   string `json:"op"`
	Tok  int    `json:"tok"`
	Row  int    `json:"row"`
	Erow int    `json:"erow"`
}
type beh struct {
	Src []tok `json:"src"`
	Ops []op  `json:"ops"`
}

func render(src []tok) (string, []int) {
	var sb strings.Builder
	phys := make([]int, len(src)+1)
	line := 1
	for i, t := range src {
		phys[i+1] = line
		switch t.K {
		case "w":
			sb.WriteString("x ")
		case "nl":
			sb.WriteString("\n")
			line++
		case "str":
			sb.WriteString("\"" + t.Txt + strings.Repeat("\n", t.N) + "\" ")
			line += t.N
		}
	}
	return sb.String(), phys
}

func main() {
	in := bufio.NewReaderSize(os.Stdin, 1<<20)
	out := bufio.NewWriter(os.Stdout)
	defer out.Flush()
	var n, drift, viol, reads int
	for {
		line, err := in.ReadBytes('\n')
		if len(line) > 1 {
			var b beh
			if e := json.Unmarshal(line, &b); e != nil {
				fmt.Fprintln(os.Stderr, "bad line", e)
				os.Exit(2)
			}
			n++
			text, phys := render(b.Src)
			reader.VerifReset(0)
			parser.VerifReset(0)
			p := parser.New(lexer.New(reader.New(*bufio.NewReader(strings.NewReader(text)))), "f.rb")
			var why, clause string
			func() {
				defer func() {
					if r := recover(); r != nil {
						why = fmt.Sprint("panic: ", r)
					}
				}()
				for k, o := range b.Ops {
					if o.Op == "unget" {
						p.Unget()
						continue
					}
					t, e := p.Read()
					reads++
					if e != nil || t == nil {
						why = fmt.Sprintf("op %d: Read returned (%v, %v)", k, t, e)
						return
					}
					if p.Row != o.Row || p.ErrorRow != o.Erow {
						if why == "" {
							why = fmt.Sprintf("op %d (token %d): model Row=%d ErrorRow=%d, parser Row=%d ErrorRow=%d", k, o.Tok, o.Row, o.Erow, p.Row, p.ErrorRow)
						}
					}
					if b.Src[o.Tok-1].K != "nl" && p.ErrorRow != phys[o.Tok] && clause == "" {
						clause = fmt.Sprintf("op %d: token %d starts on physical line %d, ErrorRow=%d", k, o.Tok, phys[o.Tok], p.ErrorRow)
					}
				}
			}()
			if why != "" {
				drift++
			}
			if clause != "" {
				viol++
			}
			if why != "" || clause != "" {
				bb, _ := json.Marshal(map[string]any{"src": b.Src, "text": text, "drift": why, "clause": clause, "ops": b.Ops})
				out.Write(bb)
				out.WriteByte('\n')
			}
		}
		if err != nil {
			break
		}
	}
	bb, _ := json.Marshal(map[string]any{"summary": true, "behaviours": n, "reads": reads, "drift": drift, "clause_violations": viol})
	out.Write(bb)
	out.WriteByte('\n')
}
