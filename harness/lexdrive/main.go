//go:build verif

// lexdrive replays TLC-generated behaviours of spec/Lexer.tla into the real
// ti/lexer, ti/lexer/reader and ti/parser packages.
//
// stdin : one JSON object per line, as printed by Lexer!EmitInv:
//         {"in":[class..], "toks":[{"k","p","u","h"}..], "fin":"eos|spin", "pos":N, "eofs":N, "hist":N}
//         or {"enum":true,"in":[class..]} (no prediction: property clauses only)
// stdout: one JSON line per input that violates a clause of C03 or disagrees
//         with the prediction, then a summary line {"summary":true,...}.
package main

import (
	"bufio"
	"encoding/json"
	"fmt"
	"hash/fnv"
	"os"
	"runtime"
	"strconv"
	"strings"

	"ti/base"
	"ti/lexer"
	"ti/lexer/reader"
	"ti/parser"
)

var reps = map[string][]string{
	"a":     {"g", "z", "G", "Z", "X", "é", "@", "$", "?", "~", "\xff", "あ"},
	"f":     {"e", "E", "a", "c", "A", "F"},
	"x":     {"x"},
	"o":     {"o", "b"},
	"w":     {"W", "w", "i", "Q", "q", "r", "s", "l"},
	"d":     {"0", "1", "7", "9"},
	"ud":    {"٣"},
	"sp":    {" ", "\t", "\r", " ", "　"},
	"nl":    {"\n"},
	"dq":    {"\""},
	"sq":    {"'"},
	"bs":    {"\\"},
	"hash":  {"#"},
	"lt":    {"<"},
	"gt":    {">"},
	"eq":    {"="},
	"dot":   {"."},
	"pct":   {"%"},
	"bang":  {"!", "/"},
	"plus":  {"+"},
	"minus": {"-"},
	"amp":   {"&"},
	"pipe":  {"|"},
	"punct": {"(", ")", "[", "]", "}", ",", ";", "^"},
	"lc":    {"{"},
	"colon": {":"},
	"bt":    {"`"},
	"star":  {"*"},
	"us":    {"_"},
	"nul":   {"\x00"},
}

type tokObs struct {
	K string `json:"k"`
	P int    `json:"p"`
	U bool   `json:"u"`
	H int    `json:"h"`
}

type behaviour struct {
	In   []string `json:"in"`
	Toks []tokObs `json:"toks"`
	Fin  string   `json:"fin"`
	Pos  int      `json:"pos"`
	Eofs int      `json:"eofs"`
	Hist int      `json:"hist"`
	Enum bool     `json:"enum"`
}

type report struct {
	In        []string `json:"in"`
	Text      string   `json:"text"`
	Variant   int      `json:"variant"`
	Clause    []string `json:"clause,omitempty"`   // violated clauses of C03 on the real code
	Drift     string   `json:"drift,omitempty"`    // disagreement with the prediction
	Fin       string   `json:"fin"`
	Site      string   `json:"site,omitempty"`
	Pos       int      `json:"pos"`
	N         int      `json:"n"`
	Hist      int      `json:"hist"`
	Toks      []tokObs `json:"toks"`
	ReadErr   int      `json:"read_errors"`
	ParserFin string   `json:"parser_fin"`
	Tokens    int      `json:"tokens"`
}

func kindOf(tok rune) string {
	switch tok {
	case base.INT, base.FLOAT:
		return "num"
	case base.STRING:
		return "str"
	case base.UNKNOWN, base.NIL:
		return "id"
	case '\n':
		return "nl"
	case '.':
		return "dot"
	case '{':
		return "lc"
	case '`':
		return "bt"
	case '(', ')', ',', '}', '[', ']', '^', ';':
		return "punct"
	}
	return "other:" + strconv.Itoa(int(tok))
}

// lexerFrame names the innermost ti/lexer function on the stack of a recovered panic.
func lexerFrame() string {
	pcs := make([]uintptr, 64)
	n := runtime.Callers(2, pcs)
	frames := runtime.CallersFrames(pcs[:n])
	for {
		fr, more := frames.Next()
		if strings.HasPrefix(fr.Function, "ti/lexer.") {
			return strings.TrimPrefix(fr.Function, "ti/lexer.(*Lexer).")
		}
		if !more {
			return "?"
		}
	}
}

func render(in []string, variant int) string {
	var sb strings.Builder
	for i, c := range in {
		r := reps[c]
		if len(r) == 0 {
			panic("unknown class " + c)
		}
		h := fnv.New32a()
		fmt.Fprintf(h, "%d/%d/%s", variant, i, strings.Join(in, ","))
		idx := 0
		if variant > 0 {
			idx = int(h.Sum32()) % len(r)
		}
		sb.WriteString(r[idx])
	}
	return sb.String()
}

// runLexer drives Advance until it reports end of stream or the EOF-read budget is hit.
func runLexer(text string, budget int, maxToks int) (toks []tokObs, fin string, site string, pos, n, hist, eofs int) {
	lr := reader.New(*bufio.NewReader(strings.NewReader(text)))
	l := lexer.New(lr)
	reader.VerifReset(budget)
	fin = "eos"
	func() {
		defer func() {
			if r := recover(); r != nil {
				if _, ok := r.(reader.VerifBudgetExceeded); ok {
					fin = "spin"
					site = lexerFrame()
				} else {
					fin = "panic"
					site = fmt.Sprint(r)
				}
			}
		}()
		for l.Advance() {
			p, _, u, h := l.VerifReader().VerifPos()
			toks = append(toks, tokObs{K: kindOf(l.Token()), P: p + 1, U: u, H: h})
			if len(toks) > maxToks {
				fin = "toomany"
				return
			}
		}
	}()
	p, nn, _, h := l.VerifReader().VerifPos()
	return toks, fin, site, p + 1, nn, h, reader.VerifEOFReads
}

// runParser drives parser.Read until nil; counts "read error".
func runParser(text string, budget int) (readErrs int, fin string, tokens int) {
	lr := reader.New(*bufio.NewReader(strings.NewReader(text)))
	p := parser.New(lexer.New(lr), "f.rb")
	reader.VerifReset(budget)
	parser.VerifReset(0)
	fin = "eos"
	func() {
		defer func() {
			if r := recover(); r != nil {
				if _, ok := r.(reader.VerifBudgetExceeded); ok {
					fin = "spin"
				} else {
					fin = "panic:" + fmt.Sprint(r)
				}
			}
		}()
		for {
			t, err := p.Read()
			if err != nil {
				readErrs++
				if readErrs > 100000 {
					fin = "toomany"
					return
				}
				continue
			}
			if t == nil {
				return
			}
			tokens++
		}
	}()
	return
}

func main() {
	variants := 2
	if v := os.Getenv("LEXDRIVE_VARIANTS"); v != "" {
		variants, _ = strconv.Atoi(v)
	}
	eofBound := 6
	in := bufio.NewReaderSize(os.Stdin, 1<<20)
	out := bufio.NewWriter(os.Stdout)
	defer out.Flush()
	var nInputs, nRuns, nClause, nDrift, nSpin, nAgree int
	classesSeen := map[string]bool{}
	for {
		line, err := in.ReadBytes('\n')
		if len(line) > 1 {
			var b behaviour
			if jerr := json.Unmarshal(line, &b); jerr != nil {
				fmt.Fprintf(os.Stderr, "bad line: %v\n", jerr)
				os.Exit(2)
			}
			nInputs++
			for _, c := range b.In {
				classesSeen[c] = true
			}
			for v := 0; v < variants; v++ {
				text := render(b.In, v)
				nRuns++
				nrunes := len([]rune(text))
				toks, fin, site, pos, n, hist, eofs := runLexer(text, 2000, 4*nrunes+16)
				rep := report{In: b.In, Text: text, Variant: v, Fin: fin, Site: site, Pos: pos, N: n, Hist: hist, Toks: toks}
				// clauses of C03 on the real code
				if fin != "eos" {
					rep.Clause = append(rep.Clause, "terminates:"+fin)
					nSpin++
				} else {
					if len(toks) > nrunes+1 {
						rep.Clause = append(rep.Clause, "token-bound")
					}
					if pos != n+1 || hist != 0 {
						rep.Clause = append(rep.Clause, "consumes-all")
					}
					if eofs > eofBound {
						rep.Clause = append(rep.Clause, "eof-reads")
					}
				}
				for _, t := range toks {
					if strings.HasPrefix(t.K, "other:") {
						rep.Clause = append(rep.Clause, "kind:"+t.K)
						break
					}
				}
				if fin == "eos" {
					re, pfin, ntok := runParser(text, 2000)
					rep.ReadErr, rep.ParserFin, rep.Tokens = re, pfin, ntok
					if re > 0 {
						rep.Clause = append(rep.Clause, "read-error")
					}
					if pfin != "eos" {
						rep.Clause = append(rep.Clause, "parser:"+pfin)
					}
				}
				// conformance with the prediction
				if !b.Enum {
					switch {
					case b.Fin != fin:
						rep.Drift = fmt.Sprintf("fin predicted %s observed %s", b.Fin, fin)
					case fin == "eos" && (b.Pos != pos || b.Hist != hist):
						rep.Drift = fmt.Sprintf("final cursor predicted pos=%d hist=%d observed pos=%d hist=%d", b.Pos, b.Hist, pos, hist)
					case fin == "eos" && b.Eofs != eofs:
						rep.Drift = fmt.Sprintf("eof reads predicted %d observed %d", b.Eofs, eofs)
					case fin == "eos" && len(b.Toks) != len(toks):
						rep.Drift = fmt.Sprintf("token count predicted %d observed %d", len(b.Toks), len(toks))
					case fin == "eos":
						for i := range toks {
							if b.Toks[i] != toks[i] {
								rep.Drift = fmt.Sprintf("token %d predicted %+v observed %+v", i, b.Toks[i], toks[i])
								break
							}
						}
					}
					if fin == "spin" && rep.Drift == "" {
						// same prefix of tokens before the spin
						for i := range b.Toks {
							if i >= len(toks) || b.Toks[i] != toks[i] {
								rep.Drift = fmt.Sprintf("token %d before spin differs", i)
								break
							}
						}
					}
				}
				if rep.Drift != "" {
					nDrift++
				} else {
					nAgree++
				}
				if len(rep.Clause) > 0 {
					nClause++
				}
				if rep.Drift != "" || len(rep.Clause) > 0 {
					bb, _ := json.Marshal(rep)
					out.Write(bb)
					out.WriteByte('\n')
				}
			}
		}
		if err != nil {
			break
		}
	}
	var cs []string
	for c := range classesSeen {
		cs = append(cs, c)
	}
	sum := map[string]any{"summary": true, "inputs": nInputs, "runs": nRuns, "clause_violations": nClause,
		"drift": nDrift, "agree": nAgree, "spins": nSpin, "classes": len(cs)}
	bb, _ := json.Marshal(sum)
	out.Write(bb)
	out.WriteByte('\n')
}
