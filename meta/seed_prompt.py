import sys
pid=sys.argv[1]
prop=open('/tmp/seed-%s.prop.txt'%pid).read()
print(f"""You are helping test a verification effort by seeding a realistic defect. Work ONLY inside the git worktree /tmp/seed-{pid} (a checkout of ruby-ti, a static type inference tool for mruby/PicoRuby written in Go: hand-written lexer, token-driven evaluator, builtin types configured by JSON files under test/.ti-config). Do not read or write anything under /verif or /repo.

Go environment for every shell call: export GOFLAGS=-mod=mod GOPROXY=off  (do not set GOSUMDB or GOTOOLCHAIN). Build: cd /tmp/seed-{pid} && go build -o ti .   Run: from the test directory, e.g. cd /tmp/seed-{pid}/test && ../ti some.rb (ti reads ./.ti-config from the current directory; `dbtp expr` in a Ruby file prints the inferred type of expr as a diagnostic; diagnostics look like file:::row:::message).

The property of ruby-ti we care about:

{prop}

Your task: produce ONE small source change to ruby-ti (Go code outside of files carrying the `verif` build tag and outside test/) that BREAKS this property, while
  (a) the code still compiles (go build ./... and go build -tags verif ./...), and
  (b) the existing test suite still passes exactly as before: `cd /tmp/seed-{pid} && go build -o ti . && go test -vet=off -count=1 -parallel 4 ./test/` must report all tests passing (585 golden tests) with the change, as it does without it. (Delete the built ./ti afterwards.)
The change should look like a plausible mistake or refactoring slip a maintainer could make (an off-by-one, a dropped condition, a swapped argument, a missing copy, a changed comparison, a reordered statement...), NOT an obviously malicious or gratuitous edit, and it must need something SPECIFIC to manifest: a particular unusual input, a multi-step sequence of statements, a particular combination of argument kinds/types, two sites that each look fine alone, an input ending at a special point, etc. Do not produce a change that ordinary everyday use would expose at once, and do not break unrelated behaviour more than necessary.

Also produce a demonstration: a small script demo.sh (bash) that builds ti from the worktree, runs it on a small input (created by the script under a temporary directory with a copy or symlink of test/.ti-config), and exits 0 if the property holds on that input and non-zero if it is violated. It must exit non-zero WITH your change and 0 WITHOUT it (verify both with `git diff > /tmp/seed-{pid}/SEED/patch.diff; git checkout -- .; ...; git apply SEED/patch.diff` - do NOT use `git stash`: the stash is shared by all worktrees of the repository and other agents are working in sibling worktrees).

Deliver, inside /tmp/seed-{pid}/SEED/ :
  patch.diff   - `git diff` of your change (the worktree should be left WITH the change applied)
  demo.sh      - the demonstration
  meta.txt     - 5-10 lines: what the change is, why it breaks the property, what exactly is needed for it to manifest, and the exact commands you ran to confirm (compile, golden tests pass, demo fails with / passes without).
Keep the change minimal (ideally 1-5 lines). Finish by printing the contents of meta.txt.""")
